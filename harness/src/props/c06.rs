//! C06 — the parser is total, and printing a parsed command re-parses to the same tree.
//!
//! Almost everything here is metamorphic: no model of the grammar is needed.
//!
//! * O-total: any text, parsed the way the shell does it (`Parser::command_line` in a loop over a
//!   line-oriented `Input`), ends in trees or a syntax error: no panic, no blocking on an
//!   in-memory input, progress on every iteration, an error that can be turned into a report.
//! * read-ahead: a complete command obtained after `k` lines had been requested must not be
//!   obtainable, identically and without error, from the first `k-1` lines alone (unless line
//!   `k-1` ends in a backslash-newline, which legitimately needs a look at the next line).
//! * O-rt: for every parsed command line `c`, `norm(parse(c.to_string())) == norm(c)`, the
//!   re-print is identical, and so is the third. Here-document bodies are outside the relation
//!   (the single-line form omits them by design): a printed line with here-document operators is
//!   completed with empty bodies and compared with the contents erased, so that operators and
//!   delimiters still take part.
//! * tree well-formedness: every parameter is a POSIX name, a digit string or a special
//!   parameter; plus the exhaustive `names` driver (`$STRING` takes the longest name). These two
//!   are the only places with a model (XBD 3.216, XCU 2.5/2.6.2).
//! * user-visible path: define a function in the virtual shell, `typeset -fp NAME`, parse what
//!   was printed, compare the body with the body that was defined.
//!
//! Generators: G1 grammar-based text with surface variation (plus a deep-nesting variant),
//! G2 mutants of G1 and corpus texts, G3 the scripted-test corpus of the repository, G4 soup.

use crate::engine::*;
use crate::vsys;
use futures_util::FutureExt as _;
use proptest::prelude::*;
use serde::{Deserialize, Serialize};
use std::cell::Cell;
use std::fmt::Write as _;
use std::rc::Rc;
use std::sync::OnceLock;
use yash_syntax::input::{Context, Input};
use yash_syntax::parser::lex::Lexer;
use yash_syntax::parser::{ErrorCause, Parser};
use yash_syntax::syntax::*;

pub const INFO: PropInfo = PropInfo {
    id: "C06",
    level: "exploration",
    rule: "cases = input text (+ portable-mode flag). Every text is parsed with Parser::command_line in a loop over a line-serving Input that counts requested lines. Non-trivial = the text yields >= 1 non-empty command whose printed form differs from the input text (printing normalised something), or the text ends in a syntax error located past its first token; distinct by text. Round trip is checked on every command line without here-documents (norm = hand-written S-expression of all public AST fields except Locations); read-ahead on commands that spanned >= 2 lines; function bodies additionally through `typeset -fp` in the virtual shell. Generators: grammar-based programs (every construct the parser knows, nesting <= 4, random blanks/newlines/comments/line continuations), deep nesting 5..40, mutants (char/token delete, duplicate, swap, unbalanced insertions, truncation, line continuations) of grammar and corpus texts, every script embedded in yash-cli/tests/scripted_test/*.sh plus the files themselves, Unicode soup <= 64 chars and token-dictionary soup.",
    assumptions: &[
        "generated nesting is bounded at 40 levels; texts with more than 130 simultaneously open brackets/keywords (a level can open three) are skipped and counted, because parser recursion is unbounded (open known finding parser-stack-overflow-on-deep-nesting); a probe run in child processes records where the stack gives out (coverage.stack_probe)",
        "here-document bodies are outside the round trip (the single-line form omits them by design): a printed line with here-document operators is completed with empty bodies before it is re-parsed and contents are erased from the comparison; delimiters containing a newline are not judged; function bodies with here-documents are skipped in the typeset path",
        "every parameter in a tree must be a POSIX name (XBD 3.216), a digit string or one special parameter, with the matching type (the only non-metamorphic oracle, together with the names driver: `$` followed by a string takes the longest name / one digit / one special character)",
        "the read-ahead rule is restricted to prefixes that do not end in backslash-newline: such a prefix legitimately forces a look at the next line even if that line adds nothing to the tree",
        "command lines whose last word ends in an unquoted lone backslash (possible only when the input ends right after it; POSIX gives a backslash meaning only together with a following character) are excluded from the round trip and counted",
        "no aliases are defined while parsing (alias substitution is the subject of C17)",
        "portable-mode cases re-parse the printed text in portable mode as well",
    ],
};

// ---------------------------------------------------------------------------------------------
// Parsing the way the shell does

struct Lines {
    lines: Vec<String>,
    pos: usize,
    served: Rc<Cell<usize>>,
    eof: Rc<Cell<bool>>,
}

impl Input for Lines {
    async fn next_line(&mut self, _context: &Context) -> yash_syntax::input::Result {
        match self.lines.get(self.pos) {
            Some(l) => {
                self.pos += 1;
                self.served.set(self.served.get() + 1);
                Ok(l.clone())
            }
            None => {
                self.eof.set(true);
                Ok(String::new())
            }
        }
    }
}

#[derive(Debug, Clone, PartialEq)]
enum End {
    Eof,
    /// variant name of the cause, whether the error is located past the first token
    Error { cause: String, past_first_token: bool },
    Blocked,
    NoProgress,
    /// stopped because the caller asked for the first N lists only
    Limit,
    /// aborted by the rewind budget of the verification hook: the lexer re-read more than
    /// 8 x input length + 64 characters
    Rereading,
}

struct Parsed {
    lists: Vec<List>,
    /// number of lines handed out when the i-th command line was returned
    lines_after: Vec<usize>,
    end: End,
    eof_seen: bool,
    /// characters the lexer moved back over (and read again) during this parse
    rewound: u64,
}

fn variant_name(dbg: &str) -> String {
    dbg.chars().take_while(|c| c.is_alphanumeric() || *c == '_').collect()
}

fn parse_all(text: &str, portable: bool, max_lists: usize) -> Parsed {
    let served = Rc::new(Cell::new(0));
    let eof = Rc::new(Cell::new(false));
    let input = Lines {
        lines: text.split_inclusive('\n').map(str::to_owned).collect(),
        pos: 0,
        served: Rc::clone(&served),
        eof: Rc::clone(&eof),
    };
    let mut lexer = Lexer::new(Box::new(input));
    if portable {
        let mut mode = yash_env::parser::Mode::default();
        mode.portable = true;
        lexer.set_mode(mode);
    }
    let _ = yash_env::verif_hooks::take_rewound_chars();
    yash_env::verif_hooks::set_rewind_budget(8 * text.chars().count() as u64 + 64);
    let mut lists = vec![];
    let mut lines_after = vec![];
    // every successful iteration consumes at least one character (a newline at least)
    let max_iter = text.chars().count() + 2;
    let mut iter = 0;
    let end = loop {
        if lists.len() >= max_lists {
            break End::Limit;
        }
        iter += 1;
        if iter > max_iter {
            break End::NoProgress;
        }
        if !lexer.pending() {
            lexer.flush();
        }
        let mut parser = Parser::new(&mut lexer);
        let polled = std::panic::catch_unwind(std::panic::AssertUnwindSafe(|| parser.command_line().now_or_never()));
        let polled = match polled {
            Ok(p) => p,
            Err(payload) => {
                let msg = payload.downcast_ref::<String>().cloned().or_else(|| payload.downcast_ref::<&str>().map(|s| s.to_string())).unwrap_or_default();
                if msg.contains("rewind budget exceeded") {
                    break End::Rereading;
                }
                yash_env::verif_hooks::set_rewind_budget(u64::MAX);
                std::panic::resume_unwind(payload);
            }
        };
        match polled {
            None => break End::Blocked,
            Some(Ok(None)) => break End::Eof,
            Some(Ok(Some(list))) => {
                lists.push(list);
                lines_after.push(served.get());
            }
            Some(Err(e)) => {
                // what the shell does next: build the report
                let _report = e.to_report();
                let cause = match &e.cause {
                    ErrorCause::Syntax(s) => variant_name(&format!("{s:?}")),
                    ErrorCause::Io(_) => "Io".to_string(),
                };
                let past = !lists.is_empty() || e.location.range.start > 0 || e.location.code.start_line_number.get() > 1;
                break End::Error { cause, past_first_token: past };
            }
        }
    };
    yash_env::verif_hooks::set_rewind_budget(u64::MAX);
    Parsed { lists, lines_after, end, eof_seen: eof.get(), rewound: yash_env::verif_hooks::take_rewound_chars() }
}

// ---------------------------------------------------------------------------------------------
// Structural normal form (Locations erased, nothing else) and feature collection

const F_CASE: u32 = 1 << 0;
const F_FUNCTION: u32 = 1 << 1;
const F_HEREDOC: u32 = 1 << 2;
const F_DSQ: u32 = 1 << 3;
const F_BACKQUOTE: u32 = 1 << 4;
const F_ARITH: u32 = 1 << 5;
const F_CMDSUBST: u32 = 1 << 6;
const F_BRACED: u32 = 1 << 7;
const F_TILDE: u32 = 1 << 8;
const F_ARRAY: u32 = 1 << 9;
const F_REDIR: u32 = 1 << 10;
const F_FOR: u32 = 1 << 11;
const F_IF: u32 = 1 << 12;
const F_LOOP: u32 = 1 << 13;
const F_SUBSHELL: u32 = 1 << 14;
const F_GROUP: u32 = 1 << 15;
const F_BANG: u32 = 1 << 16;
const F_ASYNC: u32 = 1 << 17;
const F_PIPE: u32 = 1 << 18;
const F_ANDOR: u32 = 1 << 19;
const F_ASSIGN: u32 = 1 << 20;
const F_KEYWORD_FIRST: u32 = 1 << 21;
const F_DQ: u32 = 1 << 22;
const F_SQ: u32 = 1 << 23;
const F_CTRL_BACKSLASH: u32 = 1 << 24;
const F_COMPOUND_REDIR: u32 = 1 << 25;
const F_SINGLE_MODE: u32 = 1 << 26;
const F_BQ_BACKSLASH_NEWLINE: u32 = 1 << 27;
const F_LONE_BACKSLASH: u32 = 1 << 28;
const F_CMDSUBST_PAREN: u32 = 1 << 29;
const F_FN_NAME_DOLLAR: u32 = 1 << 30;

const FEATURE_NAMES: &[(u32, &str)] = &[
    (F_CASE, "has-case"),
    (F_FUNCTION, "has-function"),
    (F_HEREDOC, "has-heredoc"),
    (F_DSQ, "has-dollar-single-quote"),
    (F_BACKQUOTE, "has-backquote"),
    (F_ARITH, "has-arith"),
    (F_CMDSUBST, "has-command-subst"),
    (F_BRACED, "has-braced-param"),
    (F_TILDE, "has-tilde"),
    (F_ARRAY, "has-array-assign"),
    (F_REDIR, "has-redirection"),
    (F_FOR, "has-for"),
    (F_IF, "has-if"),
    (F_LOOP, "has-while-until"),
    (F_SUBSHELL, "has-subshell"),
    (F_GROUP, "has-grouping"),
    (F_BANG, "has-negation"),
    (F_ASYNC, "has-async"),
    (F_PIPE, "has-pipe"),
    (F_ANDOR, "has-and-or"),
    (F_ASSIGN, "has-assignment"),
    (F_KEYWORD_FIRST, "has-keyword-as-command-word"),
    (F_DQ, "has-double-quote"),
    (F_SQ, "has-single-quote"),
    (F_CTRL_BACKSLASH, "has-control-backslash-escape"),
    (F_COMPOUND_REDIR, "has-redirected-compound"),
    (F_SINGLE_MODE, "has-declaration-utility-assignment-word"),
    (F_BQ_BACKSLASH_NEWLINE, "has-backquote-with-backslash-before-newline"),
    (F_CMDSUBST_PAREN, "has-command-subst-starting-with-paren-or-containing-double-paren"),
    (F_FN_NAME_DOLLAR, "has-function-name-ending-in-dollar"),
    (F_LONE_BACKSLASH, "has-word-ending-in-lone-backslash-at-eof(round-trip-not-judged)"),
];

#[derive(Default)]
struct Norm {
    out: String,
    feats: u32,
    /// leave here-document contents out of the normal form
    erase_heredoc_content: bool,
    /// unquoted delimiters of the here-documents, in the order Display prints their operators
    delims: Vec<String>,
    /// first violation of a tree well-formedness invariant
    bad: Option<String>,
}

/// POSIX XBD 3.216: a name consists solely of underscores, digits and alphabetics from the portable
/// character set and does not start with a digit.
fn is_posix_name(s: &str) -> bool {
    let mut cs = s.chars();
    match cs.next() {
        Some(c) if c.is_ascii_alphabetic() || c == '_' => cs.all(|c| c.is_ascii_alphanumeric() || c == '_'),
        _ => false,
    }
}

const SPECIAL_PARAMS: &str = "@*#?-$!0";

/// What a parameter identifier may be (XCU 2.5): a name, a positional parameter (digits), or one
/// special parameter character; with the type the identifier implies.
fn param_is_well_formed(p: &Param) -> bool {
    match p.r#type {
        ParamType::Variable => is_posix_name(&p.id),
        ParamType::Special(sp) => p.id.chars().count() == 1 && SPECIAL_PARAMS.contains(&p.id) && SpecialParam::from_char(p.id.chars().next().unwrap()) == Some(sp),
        ParamType::Positional(n) => {
            !p.id.is_empty() && p.id.chars().all(|c| c.is_ascii_digit()) && p.id != "0" && p.id.parse::<usize>().map_or(n == usize::MAX, |v| v == n)
        }
    }
}

impl Norm {
    fn open(&mut self, tag: &str) {
        self.out.push('(');
        self.out.push_str(tag);
    }
    fn close(&mut self) {
        self.out.push(')');
    }
    fn atom(&mut self, s: &str) {
        // length-prefixed so that no content can imitate structure
        let _ = write!(self.out, " {}:{}", s.len(), s);
    }
    fn dbg<T: std::fmt::Debug>(&mut self, t: &T) {
        let _ = write!(self.out, " {t:?}");
    }

    fn list(&mut self, l: &List) {
        self.open("list");
        for item in &l.0 {
            self.open("item");
            if item.async_flag.is_some() {
                self.out.push_str(" &");
                self.feats |= F_ASYNC;
            }
            self.and_or(&item.and_or);
            self.close();
        }
        self.close();
    }

    fn and_or(&mut self, a: &AndOrList) {
        self.open("andor");
        self.pipeline(&a.first);
        for (op, p) in &a.rest {
            self.feats |= F_ANDOR;
            self.dbg(op);
            self.pipeline(p);
        }
        self.close();
    }

    fn pipeline(&mut self, p: &Pipeline) {
        self.open("pipe");
        if p.negation {
            self.out.push_str(" !");
            self.feats |= F_BANG;
        }
        if p.commands.len() > 1 {
            self.feats |= F_PIPE;
        }
        for c in &p.commands {
            self.command(c);
        }
        self.close();
    }

    fn command(&mut self, c: &Command) {
        match c {
            Command::Simple(s) => self.simple(s),
            Command::Compound(c) => self.full_compound(c),
            Command::Function(f) => {
                self.feats |= F_FUNCTION;
                match f.name.units.last() {
                    Some(WordUnit::Unquoted(TextUnit::Literal('$'))) => self.feats |= F_FN_NAME_DOLLAR,
                    Some(WordUnit::Tilde { name, .. }) if name.ends_with('$') => self.feats |= F_FN_NAME_DOLLAR,
                    _ => {}
                }
                self.open("function");
                self.dbg(&f.has_keyword);
                self.word(&f.name);
                self.full_compound(&f.body);
                self.close();
            }
        }
    }

    fn simple(&mut self, s: &SimpleCommand) {
        self.open("simple");
        for a in &s.assigns {
            self.feats |= F_ASSIGN;
            self.open("assign");
            self.atom(&a.name);
            match &a.value {
                Value::Scalar(w) => self.word(w),
                Value::Array(ws) => {
                    self.feats |= F_ARRAY;
                    self.open("array");
                    for w in ws {
                        self.word(w);
                    }
                    self.close();
                }
            }
            self.close();
        }
        if let Some((w, _)) = s.words.first() {
            if let Some(lit) = w.to_string_if_literal() {
                if lit.parse::<yash_syntax::parser::lex::Keyword>().is_ok() {
                    self.feats |= F_KEYWORD_FIRST;
                }
            }
        }
        for (w, mode) in &s.words {
            self.open("w");
            self.dbg(mode);
            if *mode == ExpansionMode::Single {
                self.feats |= F_SINGLE_MODE;
            }
            self.word(w);
            self.close();
        }
        for r in s.redirs.iter() {
            self.redir(r);
        }
        self.close();
    }

    fn redir(&mut self, r: &Redir) {
        self.feats |= F_REDIR;
        self.open("redir");
        match r.fd {
            Some(fd) => self.dbg(&fd.0),
            None => self.out.push_str(" -"),
        }
        match &r.body {
            RedirBody::Normal { operator, operand } => {
                self.dbg(operator);
                self.word(operand);
            }
            RedirBody::HereDoc(h) => {
                self.feats |= F_HEREDOC;
                self.open("heredoc");
                self.dbg(&h.remove_tabs);
                self.word(&h.delimiter);
                self.delims.push(h.delimiter.unquote().0);
                match h.content.get() {
                    Some(_) if self.erase_heredoc_content => {}
                    Some(t) => self.text(t),
                    None => {
                        if self.bad.is_none() {
                            self.bad = Some(format!("here-document <<{} has no content after command_line returned", h.delimiter));
                        }
                    }
                }
                self.close();
            }
        }
        self.close();
    }

    fn full_compound(&mut self, c: &FullCompoundCommand) {
        self.open("compound");
        match &c.command {
            CompoundCommand::Grouping(l) => {
                self.feats |= F_GROUP;
                self.open("group");
                self.list(l);
                self.close();
            }
            CompoundCommand::Subshell { body, location: _ } => {
                self.feats |= F_SUBSHELL;
                self.open("subshell");
                self.list(body);
                self.close();
            }
            CompoundCommand::For { name, values, body } => {
                self.feats |= F_FOR;
                self.open("for");
                self.word(name);
                match values {
                    None => self.out.push_str(" <no-in>"),
                    Some(vs) => {
                        self.open("in");
                        for v in vs {
                            self.word(v);
                        }
                        self.close();
                    }
                }
                self.list(body);
                self.close();
            }
            CompoundCommand::While { condition, body } => {
                self.feats |= F_LOOP;
                self.open("while");
                self.list(condition);
                self.list(body);
                self.close();
            }
            CompoundCommand::Until { condition, body } => {
                self.feats |= F_LOOP;
                self.open("until");
                self.list(condition);
                self.list(body);
                self.close();
            }
            CompoundCommand::If { condition, body, elifs, r#else } => {
                self.feats |= F_IF;
                self.open("if");
                self.list(condition);
                self.list(body);
                for e in elifs {
                    self.open("elif");
                    self.list(&e.condition);
                    self.list(&e.body);
                    self.close();
                }
                if let Some(e) = r#else {
                    self.open("else");
                    self.list(e);
                    self.close();
                }
                self.close();
            }
            CompoundCommand::Case { subject, items } => {
                self.feats |= F_CASE;
                self.open("case");
                self.word(subject);
                for i in items {
                    self.open("caseitem");
                    self.open("patterns");
                    for p in &i.patterns {
                        self.word(p);
                    }
                    self.close();
                    self.list(&i.body);
                    self.dbg(&i.continuation);
                    self.close();
                }
                self.close();
            }
        }
        if !c.redirs.is_empty() {
            self.feats |= F_COMPOUND_REDIR;
        }
        for r in &c.redirs {
            self.redir(r);
        }
        self.close();
    }

    fn word(&mut self, w: &Word) {
        self.open("word");
        if w.units.last() == Some(&WordUnit::Unquoted(TextUnit::Literal('\\'))) {
            // only possible when the input ends right after the backslash
            self.feats |= F_LONE_BACKSLASH;
        }
        for u in &w.units {
            match u {
                WordUnit::Unquoted(t) => self.text_unit(t),
                WordUnit::SingleQuote(s) => {
                    self.feats |= F_SQ;
                    self.open("sq");
                    self.atom(s);
                    self.close();
                }
                WordUnit::DoubleQuote(t) => {
                    self.feats |= F_DQ;
                    self.open("dq");
                    self.text(t);
                    self.close();
                }
                WordUnit::DollarSingleQuote(e) => {
                    self.feats |= F_DSQ;
                    self.open("dsq");
                    for u in &e.0 {
                        if *u == EscapeUnit::Control(0x1C) {
                            self.feats |= F_CTRL_BACKSLASH;
                        }
                        // EscapeUnit has no location inside: Debug is exact
                        self.dbg(u);
                    }
                    self.close();
                }
                WordUnit::Tilde { name, followed_by_slash } => {
                    self.feats |= F_TILDE;
                    if name.contains('\\') {
                        // a literal backslash can get into a tilde name only from the end of input
                        self.feats |= F_LONE_BACKSLASH;
                    }
                    self.open("tilde");
                    self.atom(name);
                    self.dbg(followed_by_slash);
                    self.close();
                }
            }
        }
        self.close();
    }

    fn text(&mut self, t: &Text) {
        self.open("text");
        for u in &t.0 {
            self.text_unit(u);
        }
        self.close();
    }

    fn param(&mut self, p: &Param) {
        if !param_is_well_formed(p) && self.bad.is_none() {
            self.bad = Some(format!("parameter {:?} of type {:?} is not a name, a positional parameter or a special parameter", p.id, p.r#type));
        }
        self.open("param");
        self.atom(&p.id);
        self.dbg(&p.r#type);
        self.close();
    }

    fn text_unit(&mut self, u: &TextUnit) {
        match u {
            TextUnit::Literal(c) => {
                let _ = write!(self.out, " L{:x}", *c as u32);
            }
            TextUnit::Backslashed(c) => {
                let _ = write!(self.out, " B{:x}", *c as u32);
            }
            TextUnit::RawParam { param, location: _ } => {
                self.open("raw");
                self.param(param);
                self.close();
            }
            TextUnit::BracedParam(b) => {
                self.feats |= F_BRACED;
                self.open("braced");
                self.param(&b.param);
                match &b.modifier {
                    Modifier::None => self.out.push_str(" none"),
                    Modifier::Length => self.out.push_str(" length"),
                    Modifier::Switch(s) => {
                        self.open("switch");
                        self.dbg(&s.action);
                        self.dbg(&s.condition);
                        self.word(&s.word);
                        self.close();
                    }
                    Modifier::Trim(t) => {
                        self.open("trim");
                        self.dbg(&t.side);
                        self.dbg(&t.length);
                        self.word(&t.pattern);
                        self.close();
                    }
                }
                self.close();
            }
            TextUnit::CommandSubst { content, location: _ } => {
                self.feats |= F_CMDSUBST;
                // `$((` is first tried as an arithmetic expansion; whether that attempt succeeds can
                // depend on text far behind the command substitution
                let flat = content.replace("\\\n", "");
                if flat.starts_with('(') || flat.contains("((") {
                    self.feats |= F_CMDSUBST_PAREN;
                }
                self.open("cmdsubst");
                self.atom(content);
                self.close();
            }
            TextUnit::Backquote { content, location: _ } => {
                self.feats |= F_BACKQUOTE;
                self.open("backquote");
                if content
                    .windows(2)
                    .any(|w| matches!(w[0], BackquoteUnit::Literal('\\') | BackquoteUnit::Backslashed('\\')) && w[1] == BackquoteUnit::Literal('\n'))
                {
                    self.feats |= F_BQ_BACKSLASH_NEWLINE;
                }
                for b in content {
                    match b {
                        BackquoteUnit::Literal(c) => {
                            let _ = write!(self.out, " L{:x}", *c as u32);
                        }
                        BackquoteUnit::Backslashed(c) => {
                            let _ = write!(self.out, " B{:x}", *c as u32);
                        }
                    }
                }
                self.close();
            }
            TextUnit::Arith { content, location: _ } => {
                self.feats |= F_ARITH;
                self.open("arith");
                self.text(content);
                self.close();
            }
        }
    }
}

fn norm_list(l: &List) -> (String, u32) {
    let mut n = Norm::default();
    n.list(l);
    (n.out, n.feats)
}

fn norm_list_full(l: &List, erase_heredoc_content: bool) -> Norm {
    let mut n = Norm { erase_heredoc_content, ..Norm::default() };
    n.list(l);
    n
}

fn norm_compound(c: &FullCompoundCommand) -> (String, u32) {
    let mut n = Norm::default();
    n.full_compound(c);
    (n.out, n.feats)
}

// ---------------------------------------------------------------------------------------------
// The check on one text

#[derive(Clone, Debug, PartialEq, Eq, Hash, Serialize, Deserialize)]
pub struct TextCase {
    pub text: String,
    #[serde(default)]
    pub portable: bool,
}

/// Rough syntactic nesting estimate: running balance of openers.
fn nesting_estimate(text: &str) -> usize {
    let mut depth: isize = 0;
    let mut max: isize = 0;
    let mut word = String::new();
    let flush = |word: &mut String, depth: &mut isize| {
        match word.as_str() {
            "if" | "while" | "until" | "for" | "case" => *depth += 1,
            "fi" | "done" | "esac" => *depth = (*depth - 1).max(0),
            _ => {}
        }
        word.clear();
    };
    for c in text.chars() {
        if c.is_ascii_alphabetic() {
            word.push(c);
            continue;
        }
        flush(&mut word, &mut depth);
        match c {
            '(' | '{' | '`' => depth += 1,
            ')' | '}' => depth = (depth - 1).max(0),
            _ => {}
        }
        max = max.max(depth);
    }
    flush(&mut word, &mut depth);
    max.max(depth) as usize
}

/// Generated nesting is at most 40 levels; a level can contribute up to three openers to the
/// estimate (`echo $((1+$(` ...), so the estimate is cut at 3 x 40 + 10.
const MAX_NESTING: usize = 130;
const READAHEAD_LIMIT: usize = 6;

fn error_class(cause: &str) -> &'static str {
    if cause.starts_with("Unclosed") {
        "error:unclosed"
    } else if cause.starts_with("Missing") {
        "error:missing"
    } else if cause.starts_with("Unsupported") {
        "error:unsupported"
    } else if cause.starts_with("Invalid") {
        "error:invalid"
    } else if cause.starts_with("NonPortable") {
        "error:non-portable"
    } else if cause.starts_with("Incomplete") {
        "error:incomplete-escape"
    } else if cause.starts_with("Empty") {
        "error:empty-clause"
    } else if cause.starts_with("Unopened") {
        "error:unopened"
    } else {
        "error:other"
    }
}

/// Result of the round-trip check on one list.
enum Rt {
    Ok { changed: bool },
    NotJudged(&'static str),
    Fail(String),
}

fn suspect(printed: &str, feats: u32, portable: bool, detail: &str) -> &'static str {
    if detail.contains("UnclosedArith") && feats & F_CMDSUBST != 0 && printed.trim_end().ends_with("))") {
        "arith-fallback-at-eof"
    } else if feats & F_CMDSUBST_PAREN != 0 && printed.contains("$(") {
        "display-cmdsubst-double-paren"
    } else if feats & F_CTRL_BACKSLASH != 0 && EscapeUnit::Control(0x1C).to_string() == "\\c\\" {
        // the defect is present in this build: the escape is printed with a single backslash
        "display-control-backslash"
    } else if feats & F_BQ_BACKSLASH_NEWLINE != 0 {
        "backquote-escape-line-continuation"
    } else if portable
        && ["UnsupportedArithmeticCommand", "UnsupportedExtendedGlob", "ColonSuffixedCommandName", "MissingSeparatorBeforeReservedWord", "IoTokenAsRedirOperand"]
            .iter()
            .any(|e| detail.contains(e))
    {
        "display-portable-mode"
    } else if feats & F_FN_NAME_DOLLAR != 0 && printed.contains("$()") {
        "display-function-name-dollar"
    } else {
        "none"
    }
}

fn round_trip(c: &List, norm_c: &str, feats: u32, portable: bool, original: Option<&str>) -> Rt {
    if feats & F_HEREDOC != 0 {
        return round_trip_heredoc(c, feats, portable);
    }
    let s1 = c.to_string();
    let p1 = parse_all(&s1, portable, 3);
    let describe_end = |p: &Parsed| match &p.end {
        End::Error { cause, .. } => format!("syntax error {cause}"),
        e => format!("{e:?} after {} command lines", p.lists.len()),
    };
    if p1.end != End::Eof || p1.lists.len() != 1 {
        let d = describe_end(&p1);
        return Rt::Fail(format!(
            "round trip: printed form {s1:?} does not parse back to one command line: {d} [suspected={}]",
            suspect(&s1, feats, portable, &d)
        ));
    }
    let (n1, _) = norm_list(&p1.lists[0]);
    if n1 != norm_c {
        return Rt::Fail(format!(
            "round trip: printed form {s1:?} parses to a different tree: original {norm_c} reparsed {n1} [suspected={}]",
            suspect(&s1, feats, portable, "")
        ));
    }
    let s2 = p1.lists[0].to_string();
    if s2 != s1 {
        return Rt::Fail(format!("round trip: equal trees print differently: {s1:?} vs {s2:?} (Display depends on something outside the tree)"));
    }
    let p2 = parse_all(&s2, portable, 3);
    if p2.end != End::Eof || p2.lists.len() != 1 || p2.lists[0].to_string() != s2 {
        return Rt::Fail(format!("round trip: printing is not idempotent from {s2:?}"));
    }
    Rt::Ok { changed: original.is_none_or(|o| o.trim() != s1) }
}

/// The single-line form omits here-document bodies by design: complete the printed line with
/// empty bodies (one delimiter line per operator, in printing order) and compare with the
/// contents erased.
fn round_trip_heredoc(c: &List, feats: u32, portable: bool) -> Rt {
    let n0 = norm_list_full(c, true);
    if n0.delims.iter().any(|d| d.contains('\n')) {
        return Rt::NotJudged("here-document delimiter contains a newline");
    }
    let s1 = c.to_string();
    let mut text = s1.clone();
    text.push('\n');
    for d in &n0.delims {
        text.push_str(d);
        text.push('\n');
    }
    let p1 = parse_all(&text, portable, 3);
    if p1.end != End::Eof || p1.lists.len() != 1 {
        let d = match &p1.end {
            End::Error { cause, .. } => format!("syntax error {cause}"),
            e => format!("{e:?} after {} command lines", p1.lists.len()),
        };
        return Rt::Fail(format!(
            "round trip: printed form {s1:?} completed with empty here-document bodies {text:?} does not parse back to one command line: {d} [suspected={}]",
            suspect(&s1, feats, portable, &d)
        ));
    }
    let n1 = norm_list_full(&p1.lists[0], true);
    if n1.out != n0.out {
        return Rt::Fail(format!(
            "round trip: printed form {s1:?} (here-document bodies aside) parses to a different tree: original {} reparsed {} [suspected={}]",
            n0.out,
            n1.out,
            suspect(&s1, feats, portable, "")
        ));
    }
    let s2 = p1.lists[0].to_string();
    if s2 != s1 {
        return Rt::Fail(format!("round trip: equal trees print differently: {s1:?} vs {s2:?}"));
    }
    Rt::Ok { changed: true }
}

fn check_text(c: &TextCase) -> Outcome {
    let text = &c.text;
    if nesting_estimate(text) > MAX_NESTING {
        return Outcome::skip("more than 130 simultaneously open brackets/keywords, i.e. beyond the 40 generated nesting levels (parser recursion unbounded, F9)");
    }
    let p = parse_all(text, c.portable, usize::MAX);
    match &p.end {
        End::Blocked => return Outcome::fail("parser blocked on in-memory input"),
        End::NoProgress => return Outcome::fail("command_line keeps returning without consuming input (hang)"),
        _ => {}
    }
    // Re-reading: a parser that backtracks reads some characters again; the total must stay
    // linear in the input or nested constructs take exponential time (a hang in practice).
    // Three levels of `$((` that turn out to be command substitutions already cost 7 passes.
    let nchars = text.chars().count() as u64;
    if p.end == End::Rereading || p.rewound > 8 * nchars + 64 {
        let opens = text.matches("$((").count();
        let closers = text.matches(')').count();
        let key = if opens >= 4 && closers >= 2 * opens { " [suspected=parser-exponential-arith-fallback]" } else { "" };
        return Outcome::fail(format!(
            "totality: the lexer moved back over {} characters while parsing an input of {nchars} characters - re-reading grows faster than the input (exponential time for nested constructs){key}",
            p.rewound
        ));
    }
    let mut out_classes: Vec<&'static str> = vec![];
    let mut feats_all = 0u32;
    let mut norms: Vec<(String, u32)> = vec![];
    for l in &p.lists {
        let n = norm_list_full(l, false);
        if let Some(bad) = n.bad {
            return Outcome::fail(format!("ill-formed tree for {:?}: {bad}", l.to_string()));
        }
        feats_all |= n.feats;
        norms.push((n.out, n.feats));
    }

    // ---- read-ahead ----
    let lines: Vec<&str> = text.split_inclusive('\n').collect();
    let mut checked = 0;
    for i in 0..p.lists.len() {
        if checked >= READAHEAD_LIMIT {
            break;
        }
        let k = p.lines_after[i];
        let kprev = if i == 0 { 0 } else { p.lines_after[i - 1] };
        if k > lines.len() || k < kprev {
            return Outcome::fail(format!("line accounting broken: command {i} after {k} lines of {}", lines.len()));
        }
        if k < kprev + 2 {
            continue;
        }
        checked += 1;
        // determinism: the first k lines alone give the same tree
        let prefix_k: String = lines[..k].concat();
        let pk = parse_all(&prefix_k, c.portable, i + 1);
        if pk.lists.len() <= i || norm_list(&pk.lists[i]).0 != norms[i].0 {
            return Outcome::fail(format!(
                "read-ahead: command {i} was complete after {k} lines, but those {k} lines alone do not give the same tree: {prefix_k:?}"
            ));
        }
        // necessity of line k
        let prefix: String = lines[..k - 1].concat();
        if prefix.ends_with("\\\n") {
            out_classes.push("readahead:prefix-ends-in-line-continuation(not-judged)");
            continue;
        }
        let pp = parse_all(&prefix, c.portable, i + 1);
        if pp.lists.len() > i && norm_list(&pp.lists[i]).0 == norms[i].0 {
            return Outcome::fail(format!(
                "read-ahead: command {i} ({}) is already complete in the first {} lines {prefix:?}, yet the parser requested line {k} ({:?}) before returning it",
                p.lists[i],
                k - 1,
                lines[k - 1]
            ));
        }
        out_classes.push("readahead:multi-line-command-judged");
    }

    // ---- round trip ----
    let mut changed_any = false;
    let mut nonempty = 0;
    let single = p.lists.len() == 1;
    for (i, l) in p.lists.iter().enumerate() {
        if l.0.is_empty() {
            continue;
        }
        nonempty += 1;
        let (n, f) = &norms[i];
        if f & F_LONE_BACKSLASH != 0 {
            continue;
        }
        match round_trip(l, n, *f, c.portable, if single { Some(text) } else { None }) {
            Rt::Ok { changed } => changed_any |= changed,
            Rt::NotJudged(_) => out_classes.push("round-trip-not-judged:heredoc-delimiter-with-newline"),
            Rt::Fail(m) => return Outcome::fail(m),
        }
    }

    // ---- classification ----
    let mut nontrivial = nonempty > 0 && changed_any;
    match &p.end {
        End::Error { cause, past_first_token } => {
            out_classes.push("syntax-error");
            out_classes.push(error_class(cause));
            if p.eof_seen {
                out_classes.push("eof-incomplete");
            }
            if *past_first_token {
                nontrivial = true;
            }
            // the error of the first command line through the real shell: report rendering
            if p.lists.is_empty() && !c.portable && !text.contains('\0') && hash_str(text) % 4 == 0 {
                let r = vsys::run(&vsys::Setup::script(text));
                if let Some(pn) = &r.panic {
                    return Outcome::fail(format!("shell panicked while reporting the syntax error {cause}: {pn}"));
                }
                if !r.finished {
                    return Outcome::fail(format!("shell did not finish after the syntax error {cause}"));
                }
                if r.status == 0 || r.stderr.is_empty() {
                    return Outcome::fail(format!(
                        "parser reports {cause} for the first command line but `yash -c` exits {} with stderr {:?}",
                        r.status, r.stderr
                    ));
                }
                out_classes.push("error-reported-by-shell");
            }
        }
        End::Eof => out_classes.push(if nonempty > 0 { "complete" } else { "no-command" }),
        _ => {}
    }
    for &(bit, name) in FEATURE_NAMES {
        if feats_all & bit != 0 {
            out_classes.push(name);
        }
    }
    if c.portable {
        out_classes.push("portable-mode");
    }
    if p.lists.len() > 1 {
        out_classes.push("multiple-command-lines");
    }
    let mut o = Outcome::pass(nontrivial);
    o.classes = out_classes;
    o
}

fn known_text(_c: &TextCase, msg: &str) -> Option<&'static str> {
    known_by_message(msg)
}

fn known_by_message(msg: &str) -> Option<&'static str> {
    if msg.starts_with("panic:") && msg.contains("parser/lex/braced_param.rs") && msg.contains("Option::unwrap()") {
        return Some("lexer-panic-dollar-brace-at-end-of-input");
    }
    for key in [
        "display-control-backslash",
        "display-portable-mode",
        "display-function-name-dollar",
        "typeset-fp-function-keyword",
        "backquote-escape-line-continuation",
        "arith-fallback-at-eof",
        "display-cmdsubst-double-paren",
        "parser-exponential-arith-fallback",
    ] {
        if msg.contains(&format!("[suspected={key}]")) {
            return Some(key);
        }
    }
    None
}

pub static GRAMMAR: Driver<TextCase> = Driver::new("C06", "grammar", check_text).with_known(known_text);
pub static DEEP: Driver<TextCase> = Driver::new("C06", "deep", check_text).with_known(known_text);
pub static MUTANT: Driver<TextCase> = Driver::new("C06", "mutant", check_text).with_known(known_text);
pub static CORPUS: Driver<TextCase> = Driver::new("C06", "corpus", check_text).with_known(known_text);
pub static SOUP: Driver<TextCase> = Driver::new("C06", "soup", check_text).with_known(known_text);
pub static CATALOGUE: Driver<TextCase> = Driver::new("C06", "catalogue", check_text).with_known(known_text);

// ---------------------------------------------------------------------------------------------
// The user-visible path: typeset -fp

#[derive(Clone, Debug, PartialEq, Eq, Hash, Serialize, Deserialize)]
pub struct FnCase {
    /// source text of one function definition command
    pub def: String,
    /// the (expanded) function name to print
    pub name: String,
}

fn single_function(l: &List) -> Option<&FunctionDefinition> {
    if l.0.len() != 1 {
        return None;
    }
    let item = &l.0[0];
    if item.async_flag.is_some() || !item.and_or.rest.is_empty() {
        return None;
    }
    let p = &item.and_or.first;
    if p.negation || p.commands.len() != 1 {
        return None;
    }
    match &*p.commands[0] {
        Command::Function(f) => Some(f),
        _ => None,
    }
}

fn sq(s: &str) -> String {
    format!("'{}'", s.replace('\'', "'\\''"))
}

fn check_typeset(c: &FnCase) -> Outcome {
    if nesting_estimate(&c.def) > MAX_NESTING {
        return Outcome::skip("more than 130 simultaneously open brackets/keywords, i.e. beyond the 40 generated nesting levels (parser recursion unbounded, F9)");
    }
    let p = parse_all(&c.def, false, usize::MAX);
    if p.end != End::Eof || p.lists.iter().filter(|l| !l.0.is_empty()).count() != 1 {
        return Outcome::skip("generated text is not exactly one command line");
    }
    let list = p.lists.iter().find(|l| !l.0.is_empty()).unwrap();
    let Some(f) = single_function(list) else {
        return Outcome::skip("generated text is not a single function definition");
    };
    let (body_norm, feats) = norm_compound(&f.body);
    if feats & F_HEREDOC != 0 {
        return Outcome::skip("function body contains a here-document (omitted by the single-line form by design)");
    }
    let script = format!("{}\ntypeset -fp -- {}\n", c.def, sq(&c.name));
    let r = vsys::run(&vsys::Setup::script(&script));
    if let Some(pn) = &r.panic {
        return Outcome::fail(format!("shell panicked: {pn}"));
    }
    if !r.finished {
        return Outcome::fail("shell did not finish".to_string());
    }
    if r.status != 0 || r.stdout.is_empty() {
        // e.g. the name is that of a special built-in, or a read-only function
        return Outcome::skip("definition or typeset -fp failed in the shell");
    }
    let out = parse_all(&r.stdout, false, usize::MAX);
    let printed_first_line = r.stdout.lines().next().unwrap_or("").to_string();
    if let End::Error { cause, .. } = &out.end {
        let tag = if r.stdout.starts_with("function ") { "typeset-fp-function-keyword" } else { suspect(&r.stdout, feats | F_FUNCTION, false, cause) };
        return Outcome::fail(format!(
            "typeset -fp printed {:?}, which the parser rejects with {cause} (function defined by {:?}) [suspected={tag}]",
            r.stdout, c.def
        ));
    }
    let Some(first) = out.lists.iter().find(|l| !l.0.is_empty()) else {
        return Outcome::fail(format!("typeset -fp printed no command: {:?}", r.stdout));
    };
    let Some(g) = single_function(first) else {
        return Outcome::fail(format!(
            "typeset -fp printed {printed_first_line:?}, which does not parse as a function definition (defined by {:?}) [suspected={}]",
            c.def,
            suspect(&r.stdout, feats | F_FUNCTION, false, "")
        ));
    };
    let (printed_norm, _) = norm_compound(&g.body);
    if printed_norm != body_norm {
        return Outcome::fail(format!(
            "typeset -fp printed {printed_first_line:?}; its body parses to {printed_norm}, but the function was defined by {:?} with body {body_norm} [suspected={}]",
            c.def,
            suspect(&r.stdout, feats, false, "")
        ));
    }
    match g.name.to_string_if_literal() {
        Some(n) if n == c.name => {}
        other => {
            return Outcome::fail(format!("typeset -fp printed the name as {:?} ({other:?}), expected {:?}", g.name.to_string(), c.name));
        }
    }
    let body_src_differs = !c.def.contains(&f.body.to_string());
    let mut o = Outcome::pass(body_src_differs);
    for &(bit, name) in FEATURE_NAMES {
        if feats & bit != 0 {
            o.classes.push(name);
        }
    }
    o
}

fn known_fn(_c: &FnCase, msg: &str) -> Option<&'static str> {
    known_by_message(msg)
}

// ---------------------------------------------------------------------------------------------
// Names: the one place with a (tiny) model. `$STRING` takes the longest name, or one digit, or one
// special parameter character; `${STRING}` without modifier characters is accepted only for a
// name, a digit string or one special parameter.

#[derive(Clone, Debug, PartialEq, Eq, Hash, Serialize, Deserialize)]
pub struct NameCase {
    pub s: String,
    pub braced: bool,
}

const NAME_ALPHA: [char; 12] = ['a', 'Z', '_', '1', '0', '.', '-', 'é', ':', '@', '#', '!'];
const BRACED_ALPHA: [char; 9] = ['a', 'Z', '_', '1', '0', '.', 'é', '/', ','];

fn check_name(c: &NameCase) -> Outcome {
    let text = if c.braced { format!("echo ${{{}}}", c.s) } else { format!("echo ${}", c.s) };
    let p = parse_all(&text, false, usize::MAX);
    let cs: Vec<char> = c.s.chars().collect();
    if c.braced {
        let all_name_chars = !cs.is_empty() && cs.iter().all(|c| c.is_ascii_alphanumeric() || *c == '_');
        let valid = all_name_chars && (!cs[0].is_ascii_digit() || cs.iter().all(|c| c.is_ascii_digit()));
        if !valid {
            return match &p.end {
                End::Error { .. } => Outcome::pass(true).class("braced:rejected"),
                _ => Outcome::fail(format!("{text:?}: {:?} is not a parameter, yet the parser accepts it: {:?}", c.s, p.lists.iter().map(|l| norm_list(l).0).collect::<Vec<_>>())),
            };
        }
        let want_type = if c.s == "0" {
            "Special(Zero)".to_string()
        } else if cs[0].is_ascii_digit() {
            format!("Positional({})", c.s.parse::<usize>().unwrap_or(usize::MAX))
        } else {
            "Variable".to_string()
        };
        let want = format!(
            "(list(item(andor(pipe(simple(w Multiple(word L65 L63 L68 L6f))(w Multiple(word(braced(param {}:{} {}) none))))))))",
            c.s.len(),
            c.s,
            want_type
        );
        if p.end != End::Eof || p.lists.len() != 1 {
            return Outcome::fail(format!("{text:?}: a valid braced parameter is rejected: {:?}", p.end));
        }
        let got = norm_list(&p.lists[0]).0;
        if got != want {
            return Outcome::fail(format!("{text:?}: parsed as {got}, expected {want}"));
        }
        return Outcome::pass(true).class("braced:accepted");
    }
    // unbraced
    let (id, ty, used): (Option<String>, String, usize) = match cs.first() {
        Some(c0) if SPECIAL_PARAMS.contains(*c0) => {
            let name = match c0 {
                '@' => "At",
                '*' => "Asterisk",
                '#' => "Number",
                '?' => "Question",
                '-' => "Hyphen",
                '$' => "Dollar",
                '!' => "Exclamation",
                _ => "Zero",
            };
            (Some(c0.to_string()), format!("Special({name})"), 1)
        }
        Some(c0) if c0.is_ascii_digit() => (Some(c0.to_string()), format!("Positional({c0})"), 1),
        Some(c0) if c0.is_ascii_alphabetic() || *c0 == '_' => {
            let n = cs.iter().take_while(|c| c.is_ascii_alphanumeric() || **c == '_').count();
            (Some(cs[..n].iter().collect()), "Variable".to_string(), n)
        }
        _ => (None, String::new(), 0),
    };
    let mut want = String::from("(list(item(andor(pipe(simple(w Multiple(word L65 L63 L68 L6f))(w Multiple(word");
    match &id {
        Some(id) => {
            let _ = write!(want, "(raw(param {}:{} {}))", id.len(), id, ty);
        }
        None => want.push_str(" L24"),
    }
    for ch in &cs[used..] {
        let _ = write!(want, " L{:x}", *ch as u32);
    }
    want.push_str(")))))))");
    if p.end != End::Eof || p.lists.len() != 1 {
        return Outcome::fail(format!("{text:?}: rejected or split: {:?}", p.end));
    }
    let got = norm_list(&p.lists[0]).0;
    if got != want {
        return Outcome::fail(format!("{text:?}: parsed as {got}, but the longest-name rule gives {want}"));
    }
    Outcome::pass(id.is_some()).class(if id.is_some() { "raw:parameter" } else { "raw:literal-dollar" })
}

pub static NAMES: Driver<NameCase> = Driver::new("C06", "names", check_name);

fn nth_over(alpha: &[char], max_len: u32, mut i: u64) -> Option<String> {
    let n = alpha.len() as u64;
    for len in 0..=max_len {
        let count = n.pow(len);
        if i < count {
            let mut s = String::new();
            for _ in 0..len {
                s.push(alpha[(i % n) as usize]);
                i /= n;
            }
            return Some(s);
        }
        i -= count;
    }
    None
}

fn count_over(n: u64, max_len: u32) -> u64 {
    (0..=max_len).map(|l| n.pow(l)).sum()
}

pub static TYPESET: Driver<FnCase> = Driver::new("C06", "typeset", check_typeset).with_known(known_fn);

// ---------------------------------------------------------------------------------------------
// Stack probe (F9): how deep can nesting go before the parser overflows the stack?

#[derive(Clone, Debug, PartialEq, Eq, Hash, Serialize, Deserialize)]
pub struct DepthCase {
    /// "paren" = ((((:)))), "cmdsubst" = $($($(:))), "brace" = { { :; }; }, "if" = if if ...
    pub kind: String,
    pub depth: u32,
    /// 0 = parse on the calling thread (the main thread when replayed), else a thread with that stack
    pub stack_mib: u32,
}

fn nested_text(kind: &str, depth: usize) -> String {
    match kind {
        "paren" => format!("{}:{}", "(".repeat(depth), ")".repeat(depth)),
        "cmdsubst" => format!("echo {}:{}", "$(".repeat(depth), ")".repeat(depth)),
        "brace" => format!("{}:{}", "{ ".repeat(depth), "; }".repeat(depth)),
        "if" => format!("{}:{}", "if ".repeat(depth), "; then :; fi".repeat(depth)),
        "param" => format!("echo {}x{}", "${a:-".repeat(depth), "}".repeat(depth)),
        _ => ":".to_string(),
    }
}

fn check_depth(c: &DepthCase) -> Outcome {
    let text = nested_text(&c.kind, c.depth as usize);
    let work = move || {
        let p = parse_all(&text, false, usize::MAX);
        let ok = p.end == End::Eof && p.lists.len() == 1;
        // printing and dropping the tree recurse as well
        let printed = p.lists.first().map(|l| l.to_string().len()).unwrap_or(0);
        (ok, printed)
    };
    let (ok, _) = if c.stack_mib == 0 {
        work()
    } else {
        std::thread::Builder::new()
            .stack_size((c.stack_mib as usize) << 20)
            .spawn(work)
            .unwrap()
            .join()
            .unwrap_or((false, 0))
    };
    if ok { Outcome::pass(true) } else { Outcome::fail(format!("nested {} of depth {} did not parse", c.kind, c.depth)) }
}

pub static DEPTH: Driver<DepthCase> = Driver::new("C06", "depth-probe", check_depth);

/// Runs `vcheck C06 replay <file>` in a child process; Some(true) = parsed, Some(false) = the
/// child died (stack overflow), None = could not run.
fn probe_child(kind: &str, depth: u32, stack_mib: u32, dir: &std::path::Path) -> Option<bool> {
    let exe = std::env::current_exe().ok()?;
    let file = dir.join(format!("probe-{kind}-{stack_mib}-{depth}.json"));
    let body = serde_json::json!({"property": "C06", "driver": "depth-probe", "case": {"kind": kind, "depth": depth, "stack_mib": stack_mib}});
    std::fs::write(&file, serde_json::to_string(&body).ok()?).ok()?;
    let out = std::process::Command::new(exe)
        .arg("C06")
        .arg("replay")
        .arg(&file)
        .env("VERIF_OUT", dir)
        .stdout(std::process::Stdio::null())
        .stderr(std::process::Stdio::null())
        .status()
        .ok()?;
    let _ = std::fs::remove_file(&file);
    Some(out.code() == Some(0))
}

/// Largest depth in [1, cap] that parses (assuming monotonicity), by doubling then bisection.
fn max_depth(kind: &str, stack_mib: u32, cap: u32, dir: &std::path::Path) -> Option<(u32, bool)> {
    let mut lo = 1u32;
    if !probe_child(kind, lo, stack_mib, dir)? {
        return Some((0, false));
    }
    let mut hi = 2u32;
    loop {
        if hi >= cap {
            if probe_child(kind, cap, stack_mib, dir)? {
                return Some((cap, true)); // no overflow up to the cap
            }
            hi = cap;
            break;
        }
        if probe_child(kind, hi, stack_mib, dir)? {
            lo = hi;
            hi *= 2;
        } else {
            break;
        }
    }
    while hi - lo > (lo / 50).max(1) {
        let mid = lo + (hi - lo) / 2;
        if probe_child(kind, mid, stack_mib, dir)? {
            lo = mid;
        } else {
            hi = mid;
        }
    }
    Some((lo, false))
}

fn stack_probe(ctx: &Ctx, st: &mut Stats) {
    if std::env::var("VERIF_C06_NO_PROBE").is_ok() {
        st.extra.insert("stack_probe".into(), serde_json::json!("skipped (VERIF_C06_NO_PROBE)"));
        return;
    }
    let Ok(dir) = tempfile::tempdir() else {
        st.extra.insert("stack_probe".into(), serde_json::json!("skipped (no temp dir)"));
        return;
    };
    let mut res = serde_json::Map::new();
    let kinds: &[(&str, u32)] = match ctx.tier {
        Tier::Quick => &[("paren", 400_000), ("cmdsubst", 20_000)],
        Tier::Thorough => &[("paren", 400_000), ("cmdsubst", 20_000), ("brace", 400_000), ("if", 200_000), ("param", 20_000)],
    };
    for &(kind, cap) in kinds {
        for stack in [0u32, 256] {
            let key = format!("{kind}:{}", if stack == 0 { "main-thread".to_string() } else { format!("{stack}MiB-thread") });
            let v = match max_depth(kind, stack, cap, dir.path()) {
                Some((d, true)) => serde_json::json!({"deepest_ok_at_least": d, "note": "no overflow up to the probe cap"}),
                Some((d, false)) => {
                    // the open finding parser-stack-overflow-on-deep-nesting, reproduced
                    *st.known_hits.entry("parser-stack-overflow-on-deep-nesting".to_string()).or_default() += 1;
                    serde_json::json!({"deepest_ok": d, "note": "a few percent deeper the process dies of stack overflow"})
                }
                None => serde_json::json!("could not run the child process"),
            };
            res.insert(key, v);
        }
    }
    st.extra.insert("stack_probe".into(), serde_json::Value::Object(res));
}

// ---------------------------------------------------------------------------------------------
// G1: grammar-based generator driven by a choice stream (choice 0 is always the simplest)

struct G<'a> {
    d: &'a [u16],
    p: usize,
    out: String,
    /// pending here-documents: (delimiter string, remove tabs)
    pend: Vec<(String, bool)>,
    cap: usize,
    maxdepth: u32,
}

const IDENTS: &[&str] = &["echo", "x", "foo", "a", "cat", "f", "v1", "_b", "true", "probe", "X", "z9"];
const KEYWORDS: &[&str] = &[
    "if", "then", "else", "elif", "fi", "do", "done", "case", "esac", "while", "until", "for", "in", "{", "}", "!", "[[", "]]", "function", "select",
    "namespace",
];

impl<'a> G<'a> {
    fn new(d: &'a [u16], cap: usize, maxdepth: u32) -> Self {
        G { d, p: 0, out: String::new(), pend: vec![], cap, maxdepth }
    }
    fn pick(&mut self, n: usize) -> usize {
        if self.out.len() > self.cap {
            return 0;
        }
        let v = self.d.get(self.p).copied().unwrap_or(0);
        self.p += 1;
        pick_idx(v, n)
    }
    /// weighted pick: index of the weight bucket
    fn w(&mut self, weights: &[u32]) -> usize {
        let total: u32 = weights.iter().sum();
        let mut r = self.pick(total as usize) as u32;
        for (i, w) in weights.iter().enumerate() {
            if r < *w {
                return i;
            }
            r -= w;
        }
        0
    }
    fn s(&mut self, x: &str) {
        self.out.push_str(x);
    }
    fn of(&mut self, xs: &[&str]) {
        let i = self.pick(xs.len());
        self.out.push_str(xs[i]);
    }
    /// mandatory blank
    fn sp(&mut self) {
        let i = self.w(&[12, 1, 1, 1, 1]);
        self.s([" ", "  ", "\t", " \\\n", "\\\n "][i]);
    }
    /// optional blank
    fn osp(&mut self) {
        let i = self.w(&[8, 4, 1, 1]);
        self.s(["", " ", "\t ", "\\\n"][i]);
    }
    /// newline token, followed by the bodies of pending here-documents
    fn nl(&mut self) {
        self.s("\n");
        let pend = std::mem::take(&mut self.pend);
        for (delim, tabs) in pend {
            let n = self.w(&[2, 3, 1]);
            for _ in 0..n {
                if tabs && self.w(&[1, 1]) == 1 {
                    self.s("\t");
                }
                self.of(&["text", "a $x b", "\\$x `echo q`", "  $(echo r) ", "", "x\\", "'\"", "${y:-z}", "\\\\"]);
                self.s("\n");
            }
            if tabs && self.w(&[1, 1]) == 1 {
                self.s("\t\t");
            }
            self.s(&delim);
            self.s("\n");
        }
    }
    /// linebreak or blank after a keyword or an opening token
    fn lsp(&mut self) {
        match self.w(&[10, 3, 1, 1]) {
            0 => self.s(" "),
            1 => self.nl(),
            2 => {
                self.s(" # c");
                self.nl();
            }
            _ => {
                self.nl();
                self.s("\t");
            }
        }
    }
    /// terminator of a list element inside a compound list
    fn term(&mut self) {
        match self.w(&[8, 5, 2, 1, 1, 1]) {
            0 => self.s("; "),
            1 => {
                self.nl();
            }
            2 => self.s(" & "),
            3 => {
                self.s(" ;");
                self.nl();
                self.nl();
            }
            4 => {
                self.s(" # comment ; fi done }");
                self.nl();
            }
            _ => {
                self.s("&");
                self.nl();
            }
        }
    }

    fn program(&mut self, depth: u32) {
        let n = 1 + self.w(&[6, 3, 2, 1]);
        for i in 0..n {
            self.and_or(depth);
            if i + 1 < n {
                self.term();
            }
        }
        match self.w(&[4, 4, 1, 1, 1]) {
            0 => {}
            1 => self.nl(),
            2 => self.s(";"),
            3 => self.s(" &"),
            _ => {
                self.s(" #end");
                self.nl();
            }
        }
        if !self.pend.is_empty() {
            self.nl();
        }
    }

    fn compound_list(&mut self, depth: u32) {
        self.lsp();
        let n = 1 + self.w(&[7, 2, 1]);
        for _ in 0..n {
            self.and_or(depth);
            self.term();
        }
    }

    fn and_or(&mut self, depth: u32) {
        self.pipeline(depth);
        let n = self.w(&[9, 2, 1]);
        for _ in 0..n {
            self.osp();
            self.of(&["&&", "||"]);
            match self.w(&[5, 2]) {
                0 => self.osp(),
                _ => self.nl(),
            }
            self.pipeline(depth);
        }
    }

    fn pipeline(&mut self, depth: u32) {
        if self.w(&[12, 1]) == 1 {
            self.s("!");
            self.sp();
        }
        self.command(depth);
        let n = self.w(&[9, 2, 1]);
        for _ in 0..n {
            self.osp();
            self.s("|");
            match self.w(&[5, 1]) {
                0 => self.osp(),
                _ => self.nl(),
            }
            self.command(depth);
        }
    }

    fn redirs_after_compound(&mut self, depth: u32) {
        let n = self.w(&[6, 2, 1]);
        for _ in 0..n {
            self.osp();
            self.redir(depth);
        }
    }

    fn command(&mut self, depth: u32) {
        if depth >= self.maxdepth {
            return self.simple(depth);
        }
        let d = depth + 1;
        match self.w(&[12, 2, 2, 2, 2, 2, 3, 2]) {
            0 => self.simple(depth),
            1 => {
                self.s("{");
                self.compound_list(d);
                self.s("}");
                self.redirs_after_compound(depth);
            }
            2 => {
                self.s("(");
                if self.w(&[2, 1]) == 0 {
                    self.compound_list(d);
                } else {
                    self.osp();
                    self.and_or(d);
                    self.osp();
                }
                self.s(")");
                self.redirs_after_compound(depth);
            }
            3 => {
                self.s("if");
                self.compound_list(d);
                self.s("then");
                self.compound_list(d);
                let n = self.w(&[5, 2, 1]);
                for _ in 0..n {
                    self.s("elif");
                    self.compound_list(d);
                    self.s("then");
                    self.compound_list(d);
                }
                if self.w(&[2, 1]) == 1 {
                    self.s("else");
                    self.compound_list(d);
                }
                self.s("fi");
                self.redirs_after_compound(depth);
            }
            4 => {
                self.of(&["while", "until"]);
                self.compound_list(d);
                self.s("do");
                self.compound_list(d);
                self.s("done");
                self.redirs_after_compound(depth);
            }
            5 => {
                self.s("for");
                self.sp();
                self.of(&["i", "x", "name_1", "in", "do", "\"q\"", "$v", "1"]);
                match self.w(&[6, 2, 1, 1]) {
                    0 => {
                        match self.w(&[4, 1]) {
                            0 => self.sp(),
                            _ => self.nl(),
                        }
                        self.s("in");
                        let n = self.w(&[1, 3, 3, 2]);
                        for _ in 0..n {
                            self.sp();
                            self.word(d);
                        }
                        match self.w(&[3, 2]) {
                            0 => self.s(";"),
                            _ => self.nl(),
                        }
                        self.osp();
                    }
                    1 => self.sp(),
                    2 => {
                        self.s(";");
                        self.osp();
                    }
                    _ => self.nl(),
                }
                self.s("do");
                self.compound_list(d);
                self.s("done");
                self.redirs_after_compound(depth);
            }
            6 => {
                self.s("case");
                self.sp();
                self.word(d);
                match self.w(&[4, 1]) {
                    0 => self.sp(),
                    _ => self.nl(),
                }
                self.s("in");
                self.lsp();
                let n = self.w(&[1, 4, 3, 1]);
                for i in 0..n {
                    let paren = self.w(&[2, 1]) == 1;
                    if paren {
                        self.s("(");
                        self.osp();
                    }
                    let np = 1 + self.w(&[6, 2, 1]);
                    for j in 0..np {
                        if j > 0 {
                            self.osp();
                            self.s("|");
                            self.osp();
                        }
                        match self.w(&[6, 2, 1, if paren && j == 0 { 1 } else { 0 }]) {
                            0 => self.word(d),
                            1 => self.of(&["*", "a*", "[a-z]", "?", "''", "\"x y\""]),
                            2 => self.of(&["if", "in", "do", "{", "!", "for"]),
                            _ => self.s("esac"),
                        }
                    }
                    self.osp();
                    self.s(")");
                    if self.w(&[5, 1]) == 0 {
                        self.compound_list(d);
                    } else {
                        self.osp();
                    }
                    if i + 1 < n || self.w(&[2, 1]) == 0 {
                        self.of(&[";;", ";&", ";|", ";;&", ";;"]);
                        self.lsp();
                    }
                }
                self.s("esac");
                self.redirs_after_compound(depth);
            }
            _ => self.function(depth),
        }
    }

    fn function(&mut self, depth: u32) {
        let i = self.w(&[12, 6, 4, 2, 2, 2, 2, 1]);
        self.s(["f", "fn_1", "g2", "\"a b\"", "\\h", "$v", "a.b", "x$"][i]);
        self.osp();
        self.s("(");
        self.osp();
        self.s(")");
        match self.w(&[5, 2, 1]) {
            0 => self.osp(),
            1 => self.nl(),
            _ => {
                self.nl();
                self.nl();
            }
        }
        self.function_body(depth);
    }

    fn function_body(&mut self, depth: u32) {
        let d = depth + 1;
        match self.w(&[6, 3, 1, 1, 1]) {
            0 => {
                self.s("{");
                self.compound_list(d);
                self.s("}");
            }
            1 => {
                self.s("(");
                self.compound_list(d);
                self.s(")");
            }
            2 => {
                self.s("if");
                self.compound_list(d);
                self.s("then");
                self.compound_list(d);
                self.s("fi");
            }
            3 => {
                self.s("for x do");
                self.compound_list(d);
                self.s("done");
            }
            _ => {
                self.s("case $1 in (a) ");
                self.and_or(d);
                self.s(";; esac");
            }
        }
        self.redirs_after_compound(depth);
    }

    fn simple(&mut self, depth: u32) {
        let npre = self.w(&[7, 2, 1]);
        let mut any = false;
        for _ in 0..npre {
            if any {
                self.sp();
            }
            if self.w(&[3, 2]) == 0 {
                self.assignment(depth);
            } else {
                self.redir(depth);
            }
            any = true;
        }
        let nwords = if any { self.w(&[2, 3, 3, 1, 1]) } else { 1 + self.w(&[3, 3, 2, 1]) };
        for i in 0..nwords {
            if any {
                self.sp();
            }
            any = true;
            if i == 0 {
                match self.w(&[8, 3, 2, if npre > 0 { 3 } else { 0 }]) {
                    0 => self.of(IDENTS),
                    1 => self.word(depth),
                    2 => {
                        self.of(&["export", "readonly", "typeset", "local", "command export", "command command readonly"]);
                        let n = 1 + self.w(&[3, 2]);
                        for _ in 0..n {
                            self.sp();
                            self.of(&["v", "a", "PATH", "x1"]);
                            self.s("=");
                            self.of(&["~", "~/b:~u", "1", "~:$x:~root/bin", "a:~", "\"~\"", "", "~u:\\~", "$'~'"]);
                        }
                    }
                    // keyword as a command word (legal after an assignment or redirection)
                    _ => self.of(KEYWORDS),
                }
            } else {
                match self.w(&[10, 2, 1]) {
                    0 => self.word(depth),
                    1 => self.redir(depth),
                    _ => self.of(KEYWORDS),
                }
            }
        }
    }

    fn assignment(&mut self, depth: u32) {
        self.of(&["a", "v1", "_x", "PATH", "a1b", "if"]);
        self.s("=");
        match self.w(&[6, 1, 3, 2]) {
            0 => self.word(depth),
            1 => {}
            2 => {
                self.s("(");
                let n = self.w(&[1, 2, 3, 1]);
                for i in 0..n {
                    if i > 0 || self.w(&[2, 1]) == 1 {
                        match self.w(&[5, 1]) {
                            0 => self.sp(),
                            _ => self.nl(),
                        }
                    }
                    self.word(depth);
                }
                self.osp();
                self.s(")");
            }
            _ => self.of(&["~", "~/x", "~u:~", "a:~/b:~root", "~\"q\"", "~u$x"]),
        }
    }

    fn redir(&mut self, depth: u32) {
        // (the last four: descriptor numbers at and beyond the limits of the descriptor type)
        let i = self.w(&[24, 6, 3, 3, 3, 1, 1, 1, 1]);
        if i > 0 && !self.out.ends_with([' ', '\t', '\n']) && self.w(&[15, 1]) == 0 {
            // keep the descriptor number from being glued to the preceding word or keyword
            self.s(" ");
        }
        self.s(["", "2", "10", "0", "007", "2147483647", "2147483648", "4294967295", "99999999999999999999"][i]);
        match self.w(&[3, 3, 2, 1, 1, 2, 2, 1, 1, 2, 1]) {
            k @ 0..=4 => {
                self.s(["<", ">", ">>", ">|", "<>"][k]);
                self.osp();
                self.word(depth);
            }
            k @ 5..=6 => {
                self.s(["<&", ">&"][k - 5]);
                self.osp();
                match self.w(&[3, 2, 1]) {
                    0 => self.of(&["1", "2", "0", "9"]),
                    1 => self.s("-"),
                    _ => self.word(depth),
                }
            }
            7 => {
                self.s(">>|");
                self.osp();
                self.of(&["3", "4", "$fd"]);
            }
            8 => {
                self.s("<<<");
                self.osp();
                self.word(depth);
            }
            k => {
                let tabs = k == 10;
                self.s(if tabs { "<<-" } else { "<<" });
                self.osp();
                let j = self.w(&[4, 2, 1, 1, 1, 1, 1]);
                let (src, delim) = [("E", "E"), ("EOF", "EOF"), ("'E O'", "E O"), ("\\E", "E"), ("\"E\"x", "Ex"), ("-E", "-E"), ("--", "--")][j];
                self.s(src);
                self.pend.push((delim.to_string(), tabs));
            }
        }
    }

    fn lit(&mut self) {
        match self.w(&[8, 4, 2, 2, 1]) {
            0 => self.of(IDENTS),
            1 => self.of(&["1", "42", "0", "007"]),
            2 => self.of(&["*", "?", "[a-z]", "a*b", "[!x]", "%", "+", "@", "^", ",", ".", "/", "-", ":", "="]),
            3 => self.of(&["a=b", "x/y", "-n", "--opt=v", "a:b", "{a,b}", "}", "{", "]]", "a#b", "a~b"]),
            _ => self.of(&["é", "日本", "\u{a0}", "\u{1F600}", "\r", "\u{7f}"]),
        }
    }

    fn word(&mut self, depth: u32) {
        let n = 1 + self.w(&[8, 4, 2, 1]);
        for i in 0..n {
            self.word_unit(depth, i == 0);
        }
    }

    fn word_unit(&mut self, depth: u32, first: bool) {
        let deep = depth >= self.maxdepth;
        match self.w(&[10, 2, 4, 3, 2, 3, 4, if deep { 0 } else { 3 }, 2, 2, if first { 2 } else { 1 }]) {
            0 => self.lit(),
            1 => {
                self.s("'");
                self.of(&["", "a b", "$x", "\\", "\"", "a\nb", "#;&|<>(){}", "`", "~", "\\\n"]);
                self.s("'");
            }
            2 => {
                self.s("\"");
                let n = self.w(&[1, 4, 3, 2]);
                for _ in 0..n {
                    self.dq_unit(depth);
                }
                self.s("\"");
            }
            3 => self.dsq(),
            4 => {
                self.s("\\");
                self.of(&[" ", ";", "$", "\"", "'", "\\", "a", "`", "#", "~", "(", "{", "\n", "*", "&", "é", "="]);
            }
            5 => self.raw_param(),
            6 => self.braced(depth, false),
            7 => self.cmdsubst(depth),
            8 => self.backquote(false),
            9 => self.arith(depth),
            _ => self.of(&["~", "~/", "~u", "~u/x", "~+", "~-", "~a:b", "~\"x\"", "~$v"]),
        }
    }

    fn dq_unit(&mut self, depth: u32) {
        let deep = depth >= self.maxdepth;
        match self.w(&[8, 3, 3, 3, if deep { 0 } else { 2 }, 1, 2]) {
            0 => self.of(&["a", " ", "x y", "'", "#", ";", "\n", "~", "*", "$", "$ ", "{", "}", "(", ")", "é", "="]),
            1 => {
                self.s("\\");
                self.of(&["$", "\"", "\\", "`", "a", "\n", "'", " ", "}"]);
            }
            2 => self.raw_param(),
            3 => self.braced(depth, true),
            4 => self.cmdsubst(depth),
            5 => self.backquote(true),
            _ => self.arith(depth),
        }
    }

    fn dsq(&mut self) {
        self.s("$'");
        let n = self.w(&[1, 3, 3, 2, 1]);
        for _ in 0..n {
            match self.w(&[4, 4, 3, 2, 2, 2]) {
                0 => self.of(&["a", " ", "\"", "$", "1", "f", "F", "\n", "é", "`", "8"]),
                1 => self.of(&["\\\"", "\\'", "\\\\", "\\?", "\\a", "\\b", "\\e", "\\E", "\\f", "\\n", "\\r", "\\t", "\\v"]),
                2 => self.of(&["\\cA", "\\c@", "\\cz", "\\c[", "\\c\\\\", "\\c]", "\\c^", "\\c_", "\\c?", "\\cm"]),
                3 => self.of(&["\\0", "\\12", "\\101", "\\377", "\\7", "\\08", "\\0011"]),
                4 => self.of(&["\\x4", "\\x41", "\\xfF", "\\x0", "\\x411", "\\x7g"]),
                _ => self.of(&["\\u41", "\\u00e9", "\\u00E91", "\\U0001F600", "\\U41", "\\u0", "\\uFFFF", "\\U00010000"]),
            }
        }
        self.s("'");
    }

    fn raw_param(&mut self) {
        self.s("$");
        self.of(&["x", "foo_1", "1", "@", "*", "#", "?", "-", "$", "!", "0", "12", "a"]);
    }

    fn braced(&mut self, depth: u32, in_dq: bool) {
        self.s("${");
        let modifier = self.w(&[3, 1, 5, 4]);
        if modifier == 1 || self.w(&[30, 1]) == 1 {
            self.s("#");
        }
        self.of(&["x", "foo_1", "1", "10", "@", "*", "#", "?", "-", "$", "!", "0", "a"]);
        match modifier {
            2 => {
                self.of(&[":-", "-", ":=", "=", ":?", "?", ":+", "+"]);
                self.modifier_word(depth, in_dq);
            }
            3 => {
                self.of(&["#", "##", "%", "%%"]);
                self.modifier_word(depth, false);
            }
            _ => {}
        }
        self.s("}");
    }

    fn modifier_word(&mut self, depth: u32, in_dq: bool) {
        let n = self.w(&[2, 5, 2, 1]);
        for i in 0..n {
            if i > 0 && self.w(&[2, 1]) == 1 {
                self.s(" ");
            }
            if in_dq {
                match self.w(&[4, 2, 1]) {
                    0 => self.dq_unit(depth + 1),
                    1 => self.of(&["a", "~", "'q'", "*", "x y"]),
                    _ => self.s("\\}"),
                }
            } else {
                match self.w(&[6, 1, 1]) {
                    0 => self.word_unit(depth + 1, i == 0),
                    1 => self.of(&["\\}", "'}'", "\"}\"", "*", "~", "~u/"]),
                    _ => self.of(&[";", "|", "&", "<", "(", ")", "#"]),
                }
            }
        }
    }

    fn cmdsubst(&mut self, depth: u32) {
        let outer = std::mem::take(&mut self.pend);
        self.s("$(");
        let d = depth + 1;
        match self.w(&[6, 2, 1, 1, 1]) {
            0 => {
                self.osp();
                self.and_or(d);
                self.osp();
            }
            1 => self.compound_list(d),
            2 => {}
            3 => {
                // starts with a subshell: must not be taken for $((
                self.of(&[" (", "("]);
                self.and_or(d);
                self.of(&[") ", ")", "); x"]);
            }
            _ => {
                self.s("# comment)");
                self.nl();
                self.and_or(d);
                self.nl();
            }
        }
        if !self.pend.is_empty() {
            self.nl();
        }
        self.s(")");
        self.pend = outer;
    }

    fn backquote(&mut self, in_dq: bool) {
        self.s("`");
        let n = self.w(&[1, 4, 3, 2]);
        for _ in 0..n {
            match self.w(&[8, 3, 1, 1]) {
                0 => self.of(&["echo a", " ", "x", "$v", "'q'", "\"d\"", "; ", "|cat", "\n", "$(echo)", "a\\\nb"]),
                1 => self.of(&["\\$", "\\\\", "\\`", "\\\"", "\\a", "\\'", "\\\n"]),
                2 => self.s("\\`echo \\\\\\`n\\\\\\` \\`"),
                _ => {
                    if in_dq {
                        self.s("\\\"q\\\"");
                    } else {
                        self.s("\"\\$x\"");
                    }
                }
            }
        }
        self.s("`");
    }

    fn arith(&mut self, depth: u32) {
        self.s("$((");
        self.arith_expr(depth, 0);
        self.s("))");
    }

    fn arith_expr(&mut self, depth: u32, level: u32) {
        let n = 1 + self.w(&[4, 4, 2, 1]);
        let deep = depth >= self.maxdepth || level >= 3;
        for i in 0..n {
            if i > 0 {
                self.of(&["+", " - ", "*", "/", "%", "<", ">", "==", "&&", "||", "?", ":", ",", "=", "+=", "<<", "|", "&", "^", " "]);
            }
            match self.w(&[6, 3, 2, if deep { 0 } else { 2 }, 1, if deep { 0 } else { 1 }, 1, 1]) {
                0 => self.of(&["1", "42", "0x1F", "010", "x", "foo_1"]),
                1 => self.raw_param(),
                2 => self.braced(depth, true),
                3 => {
                    self.s("(");
                    self.arith_expr(depth, level + 1);
                    self.s(")");
                }
                4 => self.of(&["\\$", "\\\\", "\"1\"", "'2'", "\\\n3", "\\)"]),
                5 => self.cmdsubst(depth),
                6 => self.backquote(true),
                _ => {
                    self.s("$((");
                    self.of(&["1", "x+1", "(2)"]);
                    self.s("))");
                }
            }
        }
    }
}

fn gen_program(d: &[u16]) -> String {
    let mut g = G::new(d, 320, 4);
    g.program(0);
    g.out
}

/// Deep nesting (5..=40 levels), built from the inside out.
fn gen_deep(d: &[u16]) -> String {
    let mut g = G::new(d, usize::MAX, 1);
    let levels = 5 + g.pick(36);
    let mut core = {
        let mut h = G::new(&d[d.len().min(4)..], 60, 1);
        h.simple(1);
        if !h.pend.is_empty() {
            h.nl();
        }
        h.out
    };
    let single_kind = g.w(&[2, 1]) == 1;
    let fixed = g.pick(14);
    for _ in 0..levels {
        let k = if single_kind { fixed } else { g.pick(14) };
        let sep = if core.ends_with('\n') || core.ends_with(';') || core.ends_with('&') { "" } else { ";" };
        core = match k {
            0 => format!("({core})"),
            1 => format!("( {core} )"),
            2 => format!("{{ {core}{sep} }}"),
            3 => format!("echo $({core})"),
            4 => format!("echo \"$({core})\""),
            5 => format!("if {core}{sep} then :; fi"),
            6 => format!("if :; then :; elif :; then :; else {core}{sep} fi"),
            7 => format!("while {core}{sep} do :; done"),
            8 => format!("case a in (a) {core};; esac"),
            9 => format!("f() {{ {core}{sep} }}"),
            10 => format!("x=${{v:-$({core})}}"),
            11 => format!("echo $((1+$({core})))"),
            12 => format!("for i in $({core}); do :; done"),
            _ => format!("! {{ {core}{sep} }} | cat && :"),
        };
    }
    core
}

fn gen_function_def(d: &[u16]) -> FnCase {
    let mut g = G::new(d, 200, 3);
    let i = g.w(&[16, 8, 6, 1, 1]);
    let (src, name) = [("f", "f"), ("fn_1", "fn_1"), ("g.h", "g.h"), ("\"a b\"", "a b"), ("'x;y'", "x;y")][i];
    g.s(src);
    g.osp();
    g.s("(");
    g.osp();
    g.s(")");
    match g.w(&[5, 2]) {
        0 => g.osp(),
        _ => g.nl(),
    }
    g.function_body(0);
    if !g.pend.is_empty() {
        g.nl();
    }
    FnCase { def: g.out, name: name.to_string() }
}

// ---------------------------------------------------------------------------------------------
// G2 mutations, G3 corpus, G4 soup

static CORPUS_TEXTS: OnceLock<Vec<String>> = OnceLock::new();

const SCRIPTED_DIR: &str = "/repo/yash-cli/tests/scripted_test";

/// Every script embedded in the scripted tests (the here-document that ends at `__IN__`), plus
/// the test files themselves. Returns (texts, files read).
fn load_corpus() -> (Vec<String>, usize) {
    let mut texts = vec![];
    let Ok(rd) = std::fs::read_dir(SCRIPTED_DIR) else { return (texts, 0) };
    let mut paths: Vec<_> = rd.filter_map(|e| e.ok()).map(|e| e.path()).filter(|p| p.extension().is_some_and(|e| e == "sh")).collect();
    paths.sort();
    let mut files = 0;
    for p in paths {
        let Ok(bytes) = std::fs::read(&p) else { continue };
        let content = String::from_utf8_lossy(&bytes).into_owned();
        files += 1;
        let lines: Vec<&str> = content.split_inclusive('\n').collect();
        let mut start: Option<usize> = None;
        for (i, l) in lines.iter().enumerate() {
            let t = l.trim();
            if t == "__IN__" {
                if let Some(s) = start.take() {
                    let block: String = lines[s..i].concat();
                    if !block.is_empty() {
                        texts.push(block);
                    }
                }
                continue;
            }
            let is_header = t.starts_with("test_") || t.starts_with("testcase ") || (t.contains("<<") && t.contains("__IN__"));
            if is_header {
                start = Some(i + 1);
            }
        }
        texts.push(content);
    }
    texts.sort();
    texts.dedup();
    (texts, files)
}

const INSERTS: &[&str] = &[
    "\"", "'", "`", "(", ")", "{", "}", "$", "\\", "\n", ";", "&", "|", "<", ">", "#", " ", "!", "~", "=", "$(", "${", "$((", "))", ";;", "<<", "\\\n", "$'", "if ",
    " then ", " fi", " do ", " done", " esac", "case ", " in ",
];

fn mutate(base: &str, ops: &[(u8, u16, u16)]) -> String {
    let mut chars: Vec<char> = base.chars().collect();
    for &(op, pos, arg) in ops {
        let n = chars.len();
        let at = |raw: u16, len: usize| pick_idx(raw, len.max(1));
        match op % 11 {
            0 if n > 0 => {
                chars.remove(at(pos, n));
            }
            1 if n > 0 => {
                let i = at(pos, n);
                let c = chars[i];
                chars.insert(i, c);
            }
            2 if n > 1 => {
                let i = at(pos, n - 1);
                chars.swap(i, i + 1);
            }
            3 => {
                let i = at(pos, n + 1);
                let ins = INSERTS[pick_idx(arg, INSERTS.len())];
                for (k, c) in ins.chars().enumerate() {
                    chars.insert(i + k, c);
                }
            }
            4..=6 if n > 0 => {
                // token-level: tokens are maximal runs of non-blank characters
                let s: String = chars.iter().collect();
                let mut spans = vec![];
                let mut startc = None;
                for (i, c) in s.chars().enumerate() {
                    let blank = c == ' ' || c == '\t' || c == '\n';
                    match (blank, startc) {
                        (false, None) => startc = Some(i),
                        (true, Some(st)) => {
                            spans.push((st, i));
                            startc = None;
                        }
                        _ => {}
                    }
                }
                if let Some(st) = startc {
                    spans.push((st, n));
                }
                if spans.is_empty() {
                    continue;
                }
                let (a, b) = spans[at(pos, spans.len())];
                match op % 11 {
                    4 => {
                        chars.drain(a..b);
                    }
                    5 => {
                        let mut tok: Vec<char> = chars[a..b].to_vec();
                        tok.insert(0, ' ');
                        for (k, c) in tok.into_iter().enumerate() {
                            chars.insert(b + k, c);
                        }
                    }
                    _ => {
                        let (c, d) = spans[at(arg, spans.len())];
                        if b <= c || d <= a {
                            let ((a, b), (c, d)) = if a < c { ((a, b), (c, d)) } else { ((c, d), (a, b)) };
                            let first: Vec<char> = chars[a..b].to_vec();
                            let second: Vec<char> = chars[c..d].to_vec();
                            let mid: Vec<char> = chars[b..c].to_vec();
                            let mut repl = second;
                            repl.extend(mid);
                            repl.extend(first);
                            chars.splice(a..d, repl);
                        }
                    }
                }
            }
            7 => {
                let i = at(pos, n + 1);
                let kw = KEYWORDS[pick_idx(arg, KEYWORDS.len())];
                let ins = format!(" {kw} ");
                for (k, c) in ins.chars().enumerate() {
                    chars.insert(i + k, c);
                }
            }
            8 => {
                let i = at(pos, n + 1);
                chars.insert(i, '\\');
                chars.insert(i + 1, '\n');
            }
            9 if n > 0 => {
                chars.truncate(at(pos, n));
            }
            10 if n > 0 => {
                // newline <-> semicolon
                let i = at(pos, n);
                if let Some(j) = (i..n).chain(0..i).find(|&j| chars[j] == '\n' || chars[j] == ';') {
                    chars[j] = if chars[j] == '\n' { ';' } else { '\n' };
                }
            }
            _ => {}
        }
    }
    chars.into_iter().collect()
}

const SOUP_TOKENS: &[&str] = &[
    "if", "then", "else", "elif", "fi", "do", "done", "case", "esac", "while", "until", "for", "in", "{", "}", "(", ")", "!", ";;", ";&", ";|", "&", "&&", "|",
    "||", ";", "<", ">", "<<", "<<-", ">>", "<&", ">&", "<>", ">|", "$(", "`", "$((", "${", "\"", "'", "\\", "\n", "#", "=", "~", "*", "?", "[", "]", "a", "x1", "foo",
    "0", "2", "10", "$x", "))", "$'", "<<<", ">>|", "E", "2147483647", "2147483648", "4294967296",
];

fn arb_choices(max: usize) -> impl Strategy<Value = Vec<u16>> {
    prop::collection::vec(any::<u16>(), 0..max)
}

fn arb_portable() -> impl Strategy<Value = bool> {
    prop::bool::weighted(0.1)
}

pub fn arb_grammar() -> impl Strategy<Value = TextCase> {
    (arb_choices(260), arb_portable()).prop_map(|(d, portable)| TextCase { text: gen_program(&d), portable })
}

pub fn arb_deep() -> impl Strategy<Value = TextCase> {
    (arb_choices(80), arb_portable()).prop_map(|(d, portable)| TextCase { text: gen_deep(&d), portable })
}

pub fn arb_mutant() -> impl Strategy<Value = TextCase> {
    let base = prop_oneof![
        3 => arb_choices(200).prop_map(|d| gen_program(&d)),
        2 => any::<u16>().prop_map(|i| {
            let corpus = CORPUS_TEXTS.get().map(|v| v.as_slice()).unwrap_or(&[]);
            // whole files are too long to mutate usefully: take embedded scripts only
            let small: Vec<&String> = corpus.iter().filter(|t| t.len() <= 600).collect();
            if small.is_empty() { "echo a".to_string() } else { small[pick_idx(i, small.len())].clone() }
        }),
    ];
    (base, prop::collection::vec((any::<u8>(), any::<u16>(), any::<u16>()), 1..4), arb_portable())
        .prop_map(|(b, ops, portable)| TextCase { text: mutate(&b, &ops), portable })
}

pub fn arb_soup() -> impl Strategy<Value = TextCase> {
    let unicode = prop::collection::vec(
        prop_oneof![
            3 => any::<char>(),
            3 => prop::sample::select(vec!['$', '(', ')', '{', '}', '\'', '"', '\\', '`', '\n', ' ', ';', '&', '|', '<', '>', '#', '~', '=', '!', '-', 'a', '1', '\t', '*', '?', '[', ']', ':', '%', '+']),
        ],
        0..64,
    )
    .prop_map(|v| v.into_iter().collect::<String>());
    let tokens = prop::collection::vec((any::<u16>(), any::<u8>()), 0..40).prop_map(|v| {
        let mut s = String::new();
        for (t, glue) in v {
            s.push_str(SOUP_TOKENS[pick_idx(t, SOUP_TOKENS.len())]);
            match glue % 8 {
                0..=4 => s.push(' '),
                5 => s.push('\n'),
                _ => {}
            }
        }
        s
    });
    (prop_oneof![1 => unicode, 2 => tokens], arb_portable()).prop_map(|(text, portable)| TextCase { text, portable })
}

fn arb_fn() -> impl Strategy<Value = FnCase> {
    arb_choices(160).prop_map(|d| gen_function_def(&d))
}

/// Hand-picked texts around the places where printing has to disambiguate.
const CATALOGUE_TEXTS: &[&str] = &[
    // nested `$((` that turn out to be command substitutions: each level is parsed twice
    ": $(($(($(($(($(($(( : ) ) ) ) ) ) ) ) ) ) ) )\n",
    // the same nest left unclosed ends with an error at once (no re-reading)
    ": $(($(($(($(($(($(($(($(($(($(($(($(( 1",
    "echo $'\\c\\\\'",
    "echo $'\\cA\\c?\\c@\\x41\\101\\u00e9\\U0001F600\\e\\E\\?'",
    "echo $'\\x411' $'\\u00E91' $'\\0011'",
    "( (a) )",
    "((a); b)",
    "( ( a ) | b )",
    "! (a)",
    "!(a)",
    "{ { a; }; }",
    "{ a& }",
    "cat <<-  -E\n-E\n",
    "cat << -E\n-E\n",
    "cat <<- --\n\t--\n",
    "cat <<E; echo b\nx\nE\n",
    ">f if x",
    "<f { a; }",
    "a=1 if",
    ">f ! x",
    "2>f for",
    "if a; then b; elif c; then d; else e; fi >f 2>&1",
    "for x do :; done",
    "for x; do :; done",
    "for x in; do :; done",
    "for in in in; do :; done",
    "for do do :; done",
    "case x in esac",
    "case x in (esac) a;; esac",
    "case x in a|b) ;; c) d;& e) f;| g) h;;& i) j esac",
    "case in in in) in;; esac",
    "f() { a; } >f",
    "f()\n\n(a)",
    "\"a b\"() { :; }",
    "x$ () { :; }",
    "$ () { :; }",
    "a=(1 2\n3) b=() c=( ~ )",
    "a= (b)",
    "export a=~:~u b=\"~\" ~=~",
    "a=~:~u/x:b:~ cmd ~a:b",
    "echo ${#} ${##} ${#?} ${#-} ${#-x} ${##x} ${#%x} ${#:-x} ${###x}",
    "echo ${x:-a b;c} \"${x:-~ 'q' \\}}\" ${x#'}'} ${x%%\\}}",
    "echo $( (a) ) $((1)) $(( (1) )) $((a)+(b))",
    "echo $(# c)\na\n)",
    "echo `a\\`b\\`` \"`a\\\"b`\" `\\$x\\\\`",
    "echo \"\\a\\$\\\"\\\\\\`\" \\a\\ \\\"",
    "echo a\\\nb c\\\n d \\\n",
    "echo $\\\n'x'",
    "echo $a\\\nb ${a\\\n}",
    "echo 2>f 2 >f 02>f 2\\>f",
    "<2>x",
    "echo {x}>f",
    "a | ! b",
    "! ! a",
    "a && b ||\n\n c & d; e&",
    "echo #c\necho a#b",
    "echo a \\\n\necho b",
    "function f { a; }",
    "[[ a ]]",
    "select x in a; do :; done",
    "echo \u{a0}a\u{2003}b",
    "echo 1<&- 2>&1 3<>f 4>|f 5>>f 6>>|7 8<<<w",
    // minimal forms of the findings of the first campaigns
    "echo `\\\\\n\n`",
    "echo `echo 'a\\\\\nb'`",
    "<$((echo \\()) x",
    "( : $(( echo \\( ) ); )",
    "<f x: y",
    "${",
    "echo \"${",
    "echo ${#",
];

// ---------------------------------------------------------------------------------------------

pub fn run(ctx: &Ctx, st: &mut Stats) {
    // G3 corpus
    let (corpus, files) = load_corpus();
    if files == 0 {
        st.extra.insert("corpus_note".into(), serde_json::json!(format!("{SCRIPTED_DIR} not readable: corpus tier skipped")));
    }
    st.extra.insert("corpus_files".into(), serde_json::json!(files));
    st.extra.insert("corpus_texts".into(), serde_json::json!(corpus.len()));
    let _ = CORPUS_TEXTS.set(corpus.clone());
    let mut cases: Vec<TextCase> = corpus.iter().map(|t| TextCase { text: t.clone(), portable: false }).collect();
    // the POSIX half of the corpus must also be acceptable in portable mode as far as it parses
    cases.extend(corpus.iter().filter(|t| t.len() <= 600).map(|t| TextCase { text: t.clone(), portable: true }));
    CORPUS.run_list_par(ctx, st, cases);

    let mut cat: Vec<TextCase> = vec![];
    for t in CATALOGUE_TEXTS {
        cat.push(TextCase { text: t.to_string(), portable: false });
        cat.push(TextCase { text: t.to_string(), portable: true });
    }
    CATALOGUE.run_list_par(ctx, st, cat);

    // names: exhaustive over short strings
    let len = ctx.tier.pick(4, 5);
    let n_raw = count_over(NAME_ALPHA.len() as u64, len);
    let n_braced = count_over(BRACED_ALPHA.len() as u64, len);
    NAMES.run_exhaustive(ctx, st, n_raw + n_braced, &|i| {
        if i < n_raw {
            Some(NameCase { s: nth_over(&NAME_ALPHA, len, i)?, braced: false })
        } else {
            Some(NameCase { s: nth_over(&BRACED_ALPHA, len, i - n_raw)?, braced: true })
        }
    });

    GRAMMAR.run_random(ctx, st, ctx.tier.pick(100_000, 4_000_000), arb_grammar);
    DEEP.run_random(ctx, st, ctx.tier.pick(5_000, 150_000), arb_deep);
    MUTANT.run_random(ctx, st, ctx.tier.pick(100_000, 4_000_000), arb_mutant);
    SOUP.run_random(ctx, st, ctx.tier.pick(80_000, 3_000_000), arb_soup);
    TYPESET.run_random(ctx, st, ctx.tier.pick(16_000, 600_000), arb_fn);

    stack_probe(ctx, st);
    // coverage-guided tier over the same oracle: raw text, and generator choices mutated by libFuzzer
    crate::fuzzing::tier_stage(ctx, st, &[("c06_text", 200_000), ("c06_grammar", 100_000), ("c06_mutant", 100_000)]);
}

pub fn replay(driver: &str, case: &serde_json::Value) -> Result<(Outcome, Option<&'static str>), String> {
    match driver {
        "grammar" => GRAMMAR.replay_known(case),
        "deep" => DEEP.replay_known(case),
        "mutant" => MUTANT.replay_known(case),
        "corpus" => CORPUS.replay_known(case),
        "soup" => SOUP.replay_known(case),
        "catalogue" => CATALOGUE.replay_known(case),
        "typeset" => TYPESET.replay_known(case),
        "depth-probe" => DEPTH.replay_known(case),
        "names" => NAMES.replay_known(case),
        _ => Err(format!("unknown driver {driver}")),
    }
}
