//! C08 — nothing done in a subshell environment leaks into the parent shell.

use crate::engine::*;
use crate::probes::Snap;
use crate::vsys::{self, Chooser, FileSpec, ProcInfo};
use proptest::prelude::*;
use serde::{Deserialize, Serialize};

pub const INFO: PropInfo = PropInfo {
    id: "C08",
    level: "exploration",
    rule: "cases = (subshell kind: ( ), $( ) in an assignment / argument / redirection operand, each position of a 2-3 command pipeline, asynchronous list + wait, nested combinations; how the subshell ends: falls off the end, exit 3, killed by SIGTERM / SIGINT / SIGQUIT sent to itself; shell non-interactive (-c) or interactive (-i, script on standard input); standard descriptors 0/1/2 closed beforehand in every combination; sequence of 1-5 state mutators from a 60-entry catalogue: scalar/array assignment, unset, export, readonly, function define/unset, alias/unalias, set -o/+o for each safe option, set --/shift, cd, umask, trap command/ignore/reset incl. EXIT, exec redirections opening/closing/duplicating fds 3-9, ${x=..}, $((x=..)), read, getopts; schedule: FIFO or seeded with preemption). Oracle: full parent snapshot (variables with attributes, functions, aliases, options, positional parameters, traps, cwd, umask, descriptor table with open-file-description identity, signal dispositions of the simulated process) before == after the subshell command; child view at subshell entry == parent snapshot except that traps with command actions are default (ignored stay ignored, dispositions in the simulated process agree). Exhaustive: kind x single mutator; random: sequences. Non-trivial = the mutators really changed the child's state (child snapshot after != before); distinct by serialised case.",
    assumptions: &[
        "observable parent state = what the snapshot records; `$?`, `$!`, the job list and the variable assigned by `x=$(...)` are excluded by construction",
        "interleavings at blocking points and preemption points only",
    ],
};

#[derive(Clone, Copy, Debug, PartialEq, Eq, Hash, Serialize, Deserialize)]
pub enum Kind {
    Paren,
    SubstAssign,
    SubstArg,
    SubstRedir,
    PipeFirst,
    PipeLast,
    PipeMiddle,
    Async,
    NestedParen,
    ParenInSubst,
}

pub const KINDS: [Kind; 10] = [
    Kind::Paren, Kind::SubstAssign, Kind::SubstArg, Kind::SubstRedir, Kind::PipeFirst, Kind::PipeLast, Kind::PipeMiddle,
    Kind::Async, Kind::NestedParen, Kind::ParenInSubst,
];

pub const MUTATORS: &[&str] = &[
    "v1=changed", "vnew=1", "v1=", "arr=(1 2 3)", "v1=(x y)", "unset v1", "unset v2 vnew", "export v1", "export vnew=e", "readonly v1",
    "readonly vro=1", "typeset -x v1", "f1() { :; }", "fnew() { echo n; }", "unset -f f1", "alias a1=changed", "alias anew='echo y'",
    "unalias a1", "unalias -a", "set -o noglob", "set -f", "set -o nounset", "set -o noclobber", "set -C", "set -o allexport", "set -a",
    "set -o errexit", "set -e", "set -o pipefail", "set -o verbose", "set -o xtrace", "set +o unset", "set -o notify", "set -- p q r",
    "set --", "shift", "shift 2", "cd /tmp", "cd sub", "cd ..", "umask 077", "umask 0", "trap 'echo t' USR1", "trap '' TERM",
    "trap - USR1", "trap - USR2", "trap 'echo x' EXIT", "trap 'echo i' INT", "exec 3>/tmp/f3", "exec 4<&0", "exec 3>&-", "exec 5>&3",
    "exec 1>/dev/null", "exec 9</dev/null", ": ${v3=assigned}", ": $((v4=5))", ": $((v1=7))", "read v1 <<EOF\nfrom-read\nEOF",
    "getopts ab: opt -a", "OPTIND=3", "IFS=:", "PATH=/nowhere", "HOME=/tmp", "f1() { v1=infunc; }; f1", "eval 'v1=evaled'",
    "command eval 'alias a1=q'", "for v1 in a b; do :; done",
];

#[derive(Clone, Debug, PartialEq, Eq, Hash, Serialize, Deserialize)]
pub struct IsoCase {
    pub kind: Kind,
    pub mutators: Vec<u16>,
    pub chooser: Chooser,
    /// if non-empty: the subshell command is itself placed inside an outer `( ... )` that first
    /// runs these mutators; isolation and the entry view are then also checked one level down
    #[serde(default)]
    pub outer: Vec<u16>,
    /// how the subshell body ends: 0 falls off the end, 1 `exit 3`, 2 killed by SIGTERM,
    /// 3 killed by SIGINT, 4 killed by SIGQUIT (sent to itself)
    #[serde(default)]
    pub ending: u8,
    /// the shell is interactive (`-i`): a command substitution whose subshell dies of SIGINT is
    /// then an "interrupted" expansion error, a different path through the parent-side code
    #[serde(default)]
    pub interactive: bool,
    /// standard descriptors closed with `exec` before the first snapshot (bit 0: fd 0, bit 1:
    /// fd 1, bit 2: fd 2; non-interactive shells only), so that descriptors the subshell
    /// machinery allocates (pipe ends, saved copies) land on the standard numbers
    #[serde(default)]
    pub closed: u8,
    /// the subshell is started from inside a trap action (for SIGALRM) while another trapped
    /// signal (SIGHUP) has been caught but its action has not run yet: the subshell must start with
    /// that trap reset like any other, and the pending action runs once, in the parent
    #[serde(default)]
    pub in_trap: bool,
    /// the outer subshell (if any) is an asynchronous list `{ ... } & wait` instead of `( ... )`:
    /// without job control it ignores SIGINT and SIGQUIT, and subshells nested in it must go on
    /// ignoring them
    #[serde(default)]
    pub outer_async: bool,
}

const PRELUDE: &str = "v1=orig\nv2=orig2\nexport v2\nf1() { echo f1; }\nalias a1='echo a1'\nset -- x y\ntrap 'echo usr1' USR1\ntrap '' USR2\ntrap 'mark XT' EXIT\nexec 3>/tmp/f0\numask 027\n";

fn script(c: &IsoCase) -> String {
    let mut body = String::from("snap C0\n");
    for m in &c.mutators {
        body.push_str(MUTATORS[*m as usize % MUTATORS.len()]);
        body.push('\n');
    }
    body.push_str("snap C1\n");
    body.push_str(match c.ending % 5 {
        1 => "exit 3\n",
        2 => "selfkill TERM\n",
        3 => "selfkill INT\n",
        4 => "selfkill QUIT\n",
        _ => "",
    });
    let cmd = match c.kind {
        Kind::Paren => format!("(\n{body})"),
        Kind::SubstAssign => format!("x=$(\n{body})"),
        Kind::SubstArg => format!("echo $(\n{body}) >/dev/null"),
        Kind::SubstRedir => format!(": >/tmp/out$(\n{body})"),
        Kind::PipeFirst => format!("{{\n{body}}} | cat"),
        Kind::PipeLast => format!("echo hi | {{\n{body}}}"),
        Kind::PipeMiddle => format!("echo hi | {{\n{body}}} | cat"),
        Kind::Async => format!("{{\n{body}}} &\nwait"),
        Kind::NestedParen => format!("( : ; (\n{body}) )"),
        Kind::ParenInSubst => format!("x=$( (\n{body}) )"),
    };
    let mut pre = String::from(PRELUDE);
    if !c.interactive {
        for (bit, text) in [(1u8, "exec <&-\n"), (2, "exec >&-\n"), (4, "exec 2>&-\n")] {
            if c.closed & bit != 0 {
                pre.push_str(text);
            }
        }
    }
    if c.in_trap && !c.interactive {
        let inner = if c.outer.is_empty() {
            format!("snap A\n{cmd}\nsnap B\n")
        } else {
            let mut outer = String::new();
            for m in &c.outer {
                outer.push_str(MUTATORS[*m as usize % MUTATORS.len()]);
                outer.push('\n');
            }
            if c.outer_async { format!("snap A\n{{\n{outer}snap P\n{cmd}\nsnap Q\n}} &\nwait\nsnap B\n") } else { format!("snap A\n(\n{outer}snap P\n{cmd}\nsnap Q\n)\nsnap B\n") }
        };
        return format!("{pre}trap 'mark PH' HUP\nbody() {{\nkill -s HUP $$\n{inner}}}\ntrap body ALRM\nkill -s ALRM $$\nmark END\n");
    }
    if c.outer.is_empty() {
        format!("{pre}snap A\n{cmd}\nsnap B\n")
    } else {
        let mut outer = String::new();
        for m in &c.outer {
            outer.push_str(MUTATORS[*m as usize % MUTATORS.len()]);
            outer.push('\n');
        }
        if c.outer_async { format!("{pre}snap A\n{{\n{outer}snap P\n{cmd}\nsnap Q\n}} &\nwait\nsnap B\n") } else { format!("{pre}snap A\n(\n{outer}snap P\n{cmd}\nsnap Q\n)\nsnap B\n") }
    }
}

fn diff_snap(a: &Snap, b: &Snap, ignore_vars: &[&str]) -> Option<String> {
    let skip = |n: &str| n.starts_with("_cnt_") || n == "LINENO" || ignore_vars.contains(&n);
    for (n, v) in &a.vars {
        if skip(n) {
            continue;
        }
        match b.vars.get(n) {
            None => return Some(format!("variable {n} disappeared (was {v:?})")),
            Some(w) if w != v => return Some(format!("variable {n}: {v:?} -> {w:?} (value, exported, read-only, is-array)")),
            _ => {}
        }
    }
    for (n, w) in &b.vars {
        if !skip(n) && !a.vars.contains_key(n) {
            return Some(format!("variable {n} appeared with {w:?}"));
        }
    }
    if a.positional != b.positional {
        return Some(format!("positional parameters {:?} -> {:?}", a.positional, b.positional));
    }
    if a.functions != b.functions {
        return Some(format!("functions {:?} -> {:?}", a.functions, b.functions));
    }
    if a.aliases != b.aliases {
        return Some(format!("aliases {:?} -> {:?}", a.aliases, b.aliases));
    }
    if a.options != b.options {
        let d: Vec<_> = a.options.iter().zip(&b.options).filter(|(x, y)| x != y).collect();
        return Some(format!("options changed: {d:?}"));
    }
    // an entry whose action is the default one is bookkeeping (e.g. the shell's own SIGCHLD
    // handling), not a user-visible trap
    let user = |s: &Snap| s.traps.iter().filter(|(_, v)| v.as_str() != "-").map(|(k, v)| (k.clone(), v.clone())).collect::<Vec<_>>();
    if user(a) != user(b) {
        return Some(format!("traps {:?} -> {:?}", a.traps, b.traps));
    }
    None
}

fn diff_proc(a: &ProcInfo, b: &ProcInfo, fds_from: i32, fds_to: i32) -> Option<String> {
    if a.cwd != b.cwd {
        return Some(format!("working directory {:?} -> {:?}", a.cwd, b.cwd));
    }
    if a.umask != b.umask {
        return Some(format!("umask {:o} -> {:o}", a.umask, b.umask));
    }
    let fa: Vec<_> = a.fds.iter().filter(|(k, _)| **k >= fds_from && **k <= fds_to).collect();
    let fb: Vec<_> = b.fds.iter().filter(|(k, _)| **k >= fds_from && **k <= fds_to).collect();
    if fa != fb {
        return Some(format!("descriptor table {:?} -> {:?}", fa, fb));
    }
    None
}

fn check_iso(c: &IsoCase) -> Outcome {
    let text = script(c);
    let mut s = vsys::Setup::script(&text);
    if c.interactive {
        // an interactive shell discards the rest of a `-c` string after an interrupt, so the
        // script is read from standard input, one line at a time
        s.argv = vec!["yash".into(), "-i".into()];
        s.stdin = Some(text.clone().into_bytes());
    }
    s.chooser = c.chooser.clone();
    s.preempt = !matches!(c.chooser, Chooser::Fifo);
    s.files.push(("sub".into(), FileSpec::Dir { mode: 0o755 }));
    s.files.push(("/tmp/f0".into(), FileSpec::Regular { content: String::new(), mode: 0o644, exec: false }));
    let r = vsys::run(&s);
    let ctx = |m: String| format!("{m}\nkind {:?} interactive {} schedule {:?}\nscript:\n{text}stderr: {:?}", c.kind, c.interactive, c.chooser, r.stderr);
    if let Some(p) = &r.panic {
        return Outcome::fail(ctx(format!("panic: {p}")));
    }
    if r.log.deadlock || !r.finished {
        return Outcome::fail(ctx("shell did not finish".into()));
    }
    let find = |tag: &str| r.snaps.iter().position(|s| s.tag == tag);
    let (Some(ia), Some(ib)) = (find("A"), find("B")) else {
        return Outcome::fail(ctx("parent snapshots missing (the parent shell was terminated by what the subshell did?)".into()));
    };
    let (a, b) = (&r.snaps[ia], &r.snaps[ib]);
    let pa = r.proc_snaps.iter().find(|(t, _)| t == "A").map(|x| &x.1);
    let pb = r.proc_snaps.iter().find(|(t, _)| t == "B").map(|x| &x.1);
    let (Some(pa), Some(pb)) = (pa, pb) else { return Outcome::fail(ctx("process snapshots missing".into())) };
    if a.pid != b.pid {
        return Outcome::fail(ctx("A and B taken in different processes".into()));
    }
    // the parent's EXIT trap (a command action) is reset on subshell entry: its action may run
    // in the main shell only
    if let Some(t) = r.trace.iter().find(|t| t.args.first().is_some_and(|a| a == "XT") && t.pid != r.main_pid) {
        return Outcome::fail(ctx(format!("the parent's EXIT trap action ran in process {} (main shell is {}): traps with command actions are reset to default in a subshell", t.pid, r.main_pid)));
    }
    if c.in_trap && !c.interactive {
        // the action of the signal that was pending while the subshell was started runs exactly
        // once, in the main shell, after the action that started the subshell
        let ph: Vec<i32> = r.trace.iter().filter(|t| t.args.first().is_some_and(|a| a == "PH")).map(|t| t.pid).collect();
        if ph != vec![r.main_pid] {
            return Outcome::fail(ctx(format!("the action of the signal caught before the subshell started ran in processes {ph:?}; it must run exactly once, in the main shell {}", r.main_pid)));
        }
    }
    // (1) parent unchanged
    let ignore: &[&str] = match c.kind {
        Kind::SubstAssign | Kind::ParenInSubst => &["x"],
        _ => &[],
    };
    if let Some(d) = diff_snap(a, b, ignore) {
        return Outcome::fail(ctx(format!("parent state changed across the subshell: {d}")));
    }
    if let Some(d) = diff_proc(pa, pb, 0, 1 << 20) {
        return Outcome::fail(ctx(format!("parent process state changed across the subshell: {d}")));
    }
    // SIGCHLD: the shell installs its own handler the first time it waits for a child
    let nochld = |p: &ProcInfo| p.dispositions.iter().filter(|d| d.0 != "CHLD").cloned().collect::<Vec<_>>();
    if nochld(pa) != nochld(pb) {
        return Outcome::fail(ctx(format!("parent signal dispositions changed: {:?} -> {:?}", pa.dispositions, pb.dispositions)));
    }
    // (2) child view at entry, relative to the process that started the subshell: the main shell,
    // or the outer subshell (snapshots P before / Q after) when nested
    let (refsnap, refproc): (&Snap, &ProcInfo) = if c.outer.is_empty() {
        (a, pa)
    } else {
        let (Some(ip), Some(iq)) = (find("P"), find("Q")) else {
            // the outer mutators ended the outer subshell early (errexit, assignment to a read-only
            // variable, ...): only the isolation of the main shell could be judged. But the way the
            // INNER subshell ends (exit status, death by a signal) must not end the outer one: if the
            // outer subshell reaches Q when the inner body simply falls off its end, it must reach
            // Q now as well (errexit apart, under which a failing subshell does end it)
            let errexit = c.outer.iter().chain(&c.mutators).any(|m| matches!(MUTATORS[*m as usize % MUTATORS.len()], "set -o errexit" | "set -e"));
            if find("P").is_some() && c.ending % 5 != 0 && !errexit {
                let mut plain = c.clone();
                plain.ending = 0;
                let text0 = script(&plain);
                let mut s0 = vsys::Setup::script(&text0);
                if plain.interactive {
                    s0.argv = vec!["yash".into(), "-i".into()];
                    s0.stdin = Some(text0.clone().into_bytes());
                }
                s0.chooser = plain.chooser.clone();
                s0.preempt = !matches!(plain.chooser, Chooser::Fifo);
                s0.files.push(("sub".into(), FileSpec::Dir { mode: 0o755 }));
                s0.files.push(("/tmp/f0".into(), FileSpec::Regular { content: String::new(), mode: 0o644, exec: false }));
                let r0 = vsys::run(&s0);
                if r0.snaps.iter().any(|s| s.tag == "Q") {
                    return Outcome::fail(ctx(format!(
                        "the enclosing subshell stopped after the inner subshell ended (ending {}): it goes on to its next command when the inner body falls off its end, and the end of a subshell - by exit or by a signal - ends only that subshell",
                        c.ending % 5
                    )));
                }
            }
            return Outcome::pass(false).class("outer-subshell-ended-early");
        };
        let (p, q) = (&r.snaps[ip], &r.snaps[iq]);
        let pp = r.proc_snaps.iter().find(|(t, x)| t == "P" && x.pid == p.pid).map(|x| &x.1);
        let pq = r.proc_snaps.iter().find(|(t, x)| t == "Q" && x.pid == q.pid).map(|x| &x.1);
        let (Some(pp), Some(pq)) = (pp, pq) else { return Outcome::fail(ctx("process snapshots P/Q missing".into())) };
        if p.pid != q.pid || p.pid == a.pid {
            return Outcome::fail(ctx("outer subshell snapshots taken in unexpected processes".into()));
        }
        if let Some(d) = diff_snap(p, q, ignore) {
            return Outcome::fail(ctx(format!("state of the OUTER subshell changed across the inner subshell: {d}")));
        }
        if let Some(d) = diff_proc(pp, pq, 0, 1 << 20) {
            return Outcome::fail(ctx(format!("process state of the OUTER subshell changed across the inner subshell: {d}")));
        }
        (p, pp)
    };
    let Some(ic0) = find("C0") else {
        return Outcome::fail(ctx("the subshell body did not start".into()));
    };
    let c0 = &r.snaps[ic0];
    if c0.pid == refsnap.pid {
        return Outcome::fail(ctx("the subshell body ran in the process that started it".into()));
    }
    let mut expect = refsnap.clone();
    for v in expect.traps.values_mut() {
        if !v.is_empty() && v != "-" {
            *v = "-".to_string();
        }
    }
    let mut c0cmp = c0.clone();
    // a trap entry that is default may be absent or present as "-"
    expect.traps.retain(|_, v| v != "-");
    c0cmp.traps.retain(|_, v| v != "-");
    if c.kind == Kind::Async {
        // POSIX 2.11: with job control disabled an asynchronous list ignores SIGINT and SIGQUIT
        let int_quit = |k: &String| k == "Signal(Number(2))" || k == "Signal(Number(3))";
        expect.traps.retain(|k, _| !int_quit(k));
        c0cmp.traps.retain(|k, _| !int_quit(k));
    }
    if c.interactive {
        // an interactive shell ignores the job-control stop signals for its own needs; its
        // subshells go on ignoring them ("ignored signals stay ignored"), which the trap table of
        // the subshell shows as entries of their own
        let stopper = |k: &String| ["Signal(Number(120))", "Signal(Number(121))", "Signal(Number(122))"].contains(&k.as_str());
        expect.traps.retain(|k, _| !stopper(k));
        c0cmp.traps.retain(|k, _| !stopper(k));
    }
    if let Some(d) = diff_snap(&expect, &c0cmp, &[]) {
        return Outcome::fail(ctx(format!("child view at subshell entry differs from the state of the process that started it: {d}")));
    }
    let pc0 = r.proc_snaps.iter().find(|(t, p)| t == "C0" && p.pid == c0.pid).map(|x| &x.1);
    if let Some(pc0) = pc0 {
        // stdin/stdout may be pipes in the child; compare cwd, umask and descriptors 3-9
        if let Some(d) = diff_proc(refproc, pc0, 3, 9) {
            return Outcome::fail(ctx(format!("child process view at entry differs: {d}")));
        }
        let disp = |p: &ProcInfo, n: &str| p.dispositions.iter().find(|d| d.0 == n).map(|d| d.1.clone()).unwrap_or_default();
        // a signal with a command trap in the starting process must be default in the subshell,
        // an ignored one must stay ignored
        for (name, key) in [("USR1", "Signal(Number(124))"), ("USR2", "Signal(Number(125))"), ("TERM", "Signal(Number(15))")] {
            match refsnap.traps.get(key).map(|s| s.as_str()) {
                Some("") => {
                    if disp(pc0, name) != "Ignore" {
                        return Outcome::fail(ctx(format!("{name} was ignored by the starting process; in the subshell it must stay ignored, found {}", disp(pc0, name))));
                    }
                }
                Some(cmd) if cmd != "-" => {
                    if disp(pc0, name) != "Default" {
                        return Outcome::fail(ctx(format!("{name} had a command trap in the starting process; in the subshell its disposition must be default, found {}", disp(pc0, name))));
                    }
                }
                _ => {}
            }
        }
        // whatever made the starting process ignore a signal - a trap, inheritance, or being an
        // asynchronous list without job control (SIGINT, SIGQUIT) - the subshell goes on ignoring it
        // (an interactive shell ignores some signals for its own needs only: left out)
        if !c.interactive {
            for name in ["INT", "QUIT", "TERM", "HUP", "USR1", "USR2"] {
                if disp(refproc, name) == "Ignore" && disp(pc0, name) != "Ignore" {
                    return Outcome::fail(ctx(format!("{name} is ignored in the process that started the subshell; in the subshell it must stay ignored, found {}", disp(pc0, name))));
                }
            }
        }
    }
    // non-triviality: did the mutators change the child's own state?
    let changed = match find("C1") {
        Some(ic1) => {
            let c1 = &r.snaps[ic1];
            let pc1 = r.proc_snaps.iter().find(|(t, p)| t == "C1" && p.pid == c1.pid).map(|x| &x.1);
            diff_snap(c0, c1, &[]).is_some() || matches!((pc0, pc1), (Some(x), Some(y)) if diff_proc(x, y, 0, 1 << 20).is_some() || x.dispositions != y.dispositions)
        }
        None => true, // the child ended early (errexit, readonly assignment error ...): it did something
    };
    Outcome::pass(changed)
        .class(match c.kind {
            Kind::Paren | Kind::NestedParen => "paren",
            Kind::SubstAssign | Kind::SubstArg | Kind::SubstRedir | Kind::ParenInSubst => "command-substitution",
            Kind::PipeFirst | Kind::PipeLast | Kind::PipeMiddle => "pipeline-element",
            Kind::Async => "async",
        })
        .class_if(changed, "child-state-changed")
        .class_if(!c.outer.is_empty(), "nested-in-outer-subshell")
        .class_if(!c.outer.is_empty() && c.outer_async, "nested-in-asynchronous-list")
        .class_if(c.interactive, "interactive-shell")
        .class_if(c.in_trap && !c.interactive, "started-in-trap-action-with-a-signal-pending")
        .class_if(!c.interactive && c.closed & 7 != 0, "standard-descriptor-closed-before")
        .class(match c.ending % 5 { 1 => "subshell-exits", 2 | 3 | 4 => "subshell-killed-by-signal", _ => "subshell-falls-off-end" })
        .class_if(!matches!(c.chooser, Chooser::Fifo), "non-fifo-schedule")
}

pub static ISO: Driver<IsoCase> = Driver::new("C08", "isolation", check_iso);

pub fn run(ctx: &Ctx, st: &mut Stats) {
    // exhaustive: kind x single mutator x {FIFO, 2 seeded}
    let nm = MUTATORS.len() as u64;
    let nk = KINDS.len() as u64;
    let nsched = 3u64;
    let seed = ctx.seed;
    let decode = move |i: u64| -> Option<IsoCase> {
        let sc = i % nsched;
        let r = i / nsched;
        let kind = KINDS[(r % nk) as usize];
        let m = (r / nk) as u16;
        let chooser = if sc == 0 { Chooser::Fifo } else { Chooser::Seeded(seed * 7919 + i) };
        Some(IsoCase { kind, mutators: vec![m], chooser, outer: vec![], ending: 0, interactive: false, closed: 0, in_trap: false, outer_async: false })
    };
    ISO.run_exhaustive(ctx, st, nm * nk * nsched, &decode);
    st.exhaustive_drivers.retain(|d| d != "isolation"); // schedules are sampled
    st.extra.insert("single_mutator_grid".into(), serde_json::json!({"kinds": nk, "mutators": nm, "schedules_each": nsched}));
    // nested: every mutator in an outer subshell, then each kind of inner subshell
    let decode2 = move |i: u64| -> Option<IsoCase> {
        let kind = KINDS[(i % nk) as usize];
        let m = (i / nk) as u16;
        Some(IsoCase { kind, mutators: vec![0], chooser: Chooser::Fifo, outer: vec![m], ending: 0, interactive: false, closed: 0, in_trap: false, outer_async: false })
    };
    ISO.run_exhaustive(ctx, st, nm * nk, &decode2);
    st.exhaustive_drivers.retain(|d| d != "isolation");
    // the same with an asynchronous list as the outer subshell
    let decode2b = move |i: u64| -> Option<IsoCase> {
        let kind = KINDS[(i % nk) as usize];
        let m = (i / nk) as u16;
        Some(IsoCase { kind, mutators: vec![0], chooser: Chooser::Fifo, outer: vec![m], ending: 0, interactive: false, closed: 0, in_trap: false, outer_async: true })
    };
    ISO.run_exhaustive(ctx, st, nm * nk, &decode2b);
    st.exhaustive_drivers.retain(|d| d != "isolation");
    // every kind x every way the subshell can end x interactive or not x a few mutators
    let decode3 = move |i: u64| -> Option<IsoCase> {
        let kind = KINDS[(i % nk) as usize];
        let r = i / nk;
        let ending = (r % 5) as u8;
        let r = r / 5;
        let interactive = r % 2 == 1;
        let m = [0u16, 37, 48, 42][(r / 2) as usize];
        Some(IsoCase { kind, mutators: vec![m], chooser: Chooser::Fifo, outer: vec![], ending, interactive, closed: 0, in_trap: false, outer_async: false })
    };
    ISO.run_exhaustive(ctx, st, nk * 5 * 2 * 4, &decode3);
    st.exhaustive_drivers.retain(|d| d != "isolation");
    // every kind x every set of closed standard descriptors x nested or not
    let decode4 = move |i: u64| -> Option<IsoCase> {
        let kind = KINDS[(i % nk) as usize];
        let r = i / nk;
        let closed = (r % 7) as u8 + 1;
        let outer = if r / 7 == 1 { vec![0u16] } else { vec![] };
        Some(IsoCase { kind, mutators: vec![0], chooser: Chooser::Fifo, outer, ending: 0, interactive: false, closed, in_trap: false, outer_async: false })
    };
    ISO.run_exhaustive(ctx, st, nk * 7 * 2, &decode4);
    st.exhaustive_drivers.retain(|d| d != "isolation");
    // every kind started from a trap action while another trapped signal is pending x a few mutators x nested or not
    let decode5 = move |i: u64| -> Option<IsoCase> {
        let kind = KINDS[(i % nk) as usize];
        let r = i / nk;
        let m = [0u16, 42, 44, 46][(r % 4) as usize];
        let outer = if r / 4 == 1 { vec![0u16] } else { vec![] };
        Some(IsoCase { kind, mutators: vec![m], chooser: Chooser::Fifo, outer, ending: 0, interactive: false, closed: 0, in_trap: true, outer_async: false })
    };
    ISO.run_exhaustive(ctx, st, nk * 4 * 2, &decode5);
    st.exhaustive_drivers.retain(|d| d != "isolation");
    // random sequences
    let n = ctx.tier.pick(120_000, 2_000_000);
    ISO.run_random(ctx, st, n, || {
        (
            0usize..KINDS.len(),
            prop::collection::vec(0u16..MUTATORS.len() as u16, 1..6),
            prop_oneof![1 => Just(None), 3 => any::<u64>().prop_map(Some)],
            (prop_oneof![1 => Just(vec![]), 1 => prop::collection::vec(0u16..MUTATORS.len() as u16, 1..4)], prop::bool::weighted(0.4)),
            prop_oneof![3 => Just(0u8), 2 => 1u8..5],
            prop::bool::weighted(0.3),
            prop_oneof![3 => Just(0u8), 1 => 1u8..8],
            prop::bool::weighted(0.2),
        )
            .prop_map(|(k, mutators, seed, (outer, outer_async), ending, interactive, closed, in_trap)| IsoCase {
                kind: KINDS[k],
                mutators,
                chooser: seed.map_or(Chooser::Fifo, Chooser::Seeded),
                outer,
                ending,
                interactive,
                closed,
                in_trap,
                outer_async,
            })
    });
}

pub fn replay(driver: &str, case: &serde_json::Value) -> Result<(Outcome, Option<&'static str>), String> {
    match driver {
        "isolation" => ISO.replay_known(case),
        _ => Err(format!("unknown driver {driver}")),
    }
}
