//! C04 — pattern matching accepts exactly the strings the POSIX notation denotes.
//!
//! Oracle: `model::fnmatch` (own parser + backtracking matcher). API tier drives
//! `yash_fnmatch::Pattern` directly with the configurations the shell uses; the shell tier
//! (`case`, `${v#p}` ...) lives in c04_shell.

use crate::engine::*;
use crate::model::fnmatch::{self as m, PC, Tri, TrimKind};
use proptest::prelude::*;
use serde::{Deserialize, Serialize};
use std::cell::RefCell;
use yash_fnmatch::{Config, Pattern, PatternChar};

pub const INFO: PropInfo = PropInfo {
    id: "C04",
    level: "exploration",
    rule: "cases = (pattern as a sequence of normal/quoted characters, string, mode) with mode in {whole-string match with/without the leading-period rule, the four prefix/suffix trims}. Exhaustive tier: every pattern up to length 4 (quick) / 5 (thorough) over {a b . - * ? [ ] ! ^ \\ : =} fed both with and without backslash escaping x every string up to length 3 over {a b . - ] [ ! ^ \\ : =} x 6 modes; random tier: grammar-built bracket expressions (ranges, classes, collating symbols and equivalence classes of every printable ASCII character and some non-ASCII, quoted members) against strings with regex-special and non-ASCII characters; shell tier: case / ${v#p} family through the virtual shell. Non-trivial = the reference model parses at least one special construct (* ? [...]) in the pattern and gives a definite answer; distinct by (pattern, string, mode).",
    assumptions: &[
        "POSIX locale: classes are ASCII, ranges compare code points, every character is its own collating element",
        "patterns POSIX leaves undefined (range start>end, class as range endpoint, unknown class, empty/multi-character collating symbol, hyphen right after a range, trailing backslash, period in a bracket vs leading period) are skipped, only 'no panic' is required",
    ],
};

#[derive(Clone, Copy, Debug, PartialEq, Eq, Hash, Serialize, Deserialize)]
pub enum Mode {
    Match { period: bool },
    Trim(TrimKind),
}

pub const MODES: [Mode; 6] = [
    Mode::Match { period: false },
    Mode::Match { period: true },
    Mode::Trim(TrimKind::PrefixShortest),
    Mode::Trim(TrimKind::PrefixLongest),
    Mode::Trim(TrimKind::SuffixShortest),
    Mode::Trim(TrimKind::SuffixLongest),
];

#[derive(Clone, Debug, PartialEq, Eq, Hash, Serialize, Deserialize)]
pub struct PatCase {
    pub pat: Vec<PC>,
    pub text: String,
    pub mode: Mode,
}

fn to_pattern_chars(p: &[PC]) -> Vec<PatternChar> {
    p.iter().map(|x| if x.lit { PatternChar::Literal(x.c) } else { PatternChar::Normal(x.c) }).collect()
}

fn config_for(mode: Mode) -> Config {
    let mut c = Config::default();
    match mode {
        Mode::Match { period } => {
            c.anchor_begin = true;
            c.anchor_end = true;
            c.literal_period = period;
        }
        Mode::Trim(k) => {
            match k {
                TrimKind::PrefixShortest | TrimKind::PrefixLongest => c.anchor_begin = true,
                _ => c.anchor_end = true,
            }
            if matches!(k, TrimKind::PrefixShortest | TrimKind::SuffixShortest) {
                c.shortest_match = true;
            }
        }
    }
    c
}

type Compiled = Option<(Vec<PC>, Mode, Result<Pattern, String>, Result<Vec<m::Atom>, &'static str>)>;
thread_local! {
    static CACHE: RefCell<Compiled> = const { RefCell::new(None) };
}

/// The five lines of `trim_value` in yash-semantics (choice of find vs rfind), replicated so that
/// the API tier exercises the same calls; the shell tier runs the original.
fn real_trim(p: &Pattern, text: &str) -> String {
    let config = p.config();
    let range = if config.anchor_end && config.shortest_match { p.rfind(text) } else { p.find(text) };
    let mut v = text.to_string();
    if let Some(r) = range {
        v.drain(r);
    }
    v
}

fn check_pat(c: &PatCase) -> Outcome {
    CACHE.with(|cache| {
        let mut cache = cache.borrow_mut();
        let hit = matches!(&*cache, Some((p, mode, _, _)) if *p == c.pat && *mode == c.mode);
        if !hit {
            let real = Pattern::parse_with_config(to_pattern_chars(&c.pat), config_for(c.mode)).map_err(|e| e.to_string());
            let model = m::parse(&c.pat);
            *cache = Some((c.pat.clone(), c.mode, real, model));
        }
        let (_, _, real, model) = cache.as_ref().unwrap();
        let t: Vec<char> = c.text.chars().collect();
        let atoms = match model {
            Ok(a) => a,
            Err(why) => {
                // only totality: exercise the real matcher, any answer is fine
                if let Ok(p) = real {
                    let _ = p.is_match(&c.text);
                    let _ = p.find(&c.text);
                    let _ = p.rfind(&c.text);
                }
                return Outcome::skip(why);
            }
        };
        let nontrivial = m::has_special(atoms);
        // the polynomial matcher of the model against the literal recursive definition (small inputs)
        if atoms.len() <= 7 && t.len() <= 7 && m::full_match(atoms, &t) != m::full_match_recursive(atoms, &t) {
            panic!("harness model inconsistency: DP and recursive definitions of matching disagree on {} vs {:?}", show(&c.pat), c.text);
        }
        let real = match real {
            Ok(p) => p,
            Err(e) => return Outcome::fail(format!("pattern {} is well-defined in POSIX but was rejected: {e}", show(&c.pat))),
        };
        match c.mode {
            Mode::Match { period } => {
                let got = real.is_match(&c.text);
                match m::matches_period(atoms, &t, period) {
                    Tri::Unspecified(w) => Outcome::skip(w),
                    exp => {
                        let exp = exp == Tri::Yes;
                        if got == exp {
                            Outcome::pass(nontrivial).class(if exp { "match" } else { "no-match" })
                        } else {
                            Outcome::fail(format!(
                                "pattern {} vs {:?} (literal_period={period}): matcher says {got}, POSIX notation says {exp}",
                                show(&c.pat), c.text
                            ))
                        }
                    }
                }
            }
            Mode::Trim(k) => {
                let got = real_trim(real, &c.text);
                let exp = m::trim(atoms, &t, k);
                if got == exp {
                    Outcome::pass(nontrivial).class(if exp.len() == c.text.len() { "trim-none" } else { "trim-some" })
                } else {
                    Outcome::fail(format!("{k:?} of {:?} by pattern {}: got {got:?}, expected {exp:?}", c.text, show(&c.pat)))
                }
            }
        }
    })
}

pub fn show(p: &[PC]) -> String {
    let mut s = String::from("`");
    for x in p {
        if x.lit {
            s.push('\\');
        }
        s.push(x.c);
    }
    s.push('`');
    s
}

pub static PAT: Driver<PatCase> = Driver::new("C04", "pattern", check_pat);

// ---------------------------------------------------------------------------------------------

const PAT_ALPHA: [char; 13] = ['a', 'b', '.', '-', '*', '?', '[', ']', '!', '^', '\\', ':', '='];
const STR_ALPHA: [char; 11] = ['a', 'b', '.', '-', ']', '[', '!', '^', '\\', ':', '='];

fn nth_string(alpha: &[char], max_len: u32, mut i: u64) -> Option<String> {
    let n = alpha.len() as u64;
    for len in 0..=max_len {
        let count = n.pow(len);
        if i < count {
            let mut s = String::new();
            for _ in 0..len {
                s.push(alpha[(i % n) as usize]);
                i /= n;
            }
            return Some(s);
        }
        i -= count;
    }
    None
}

fn count_strings(n: u64, max_len: u32) -> u64 {
    (0..=max_len).map(|l| n.pow(l)).sum()
}

fn printable() -> Vec<char> {
    let mut v: Vec<char> = (0x20u8..0x7f).map(|b| b as char).collect();
    v.extend(['\n', '\t', 'é', 'ß', '€', '\u{3000}', '𝒳']);
    v
}

fn arb_char() -> impl Strategy<Value = char> {
    let p = printable();
    prop_oneof![
        3 => prop::sample::select(vec!['a', 'b', 'c', 'd', 'x', 'z', 'A', 'Z', '0', '5', '9']),
        3 => prop::sample::select(vec!['.', '-', '*', '?', '[', ']', '!', '^', '\\', ':', '=', '|', '(', ')', '{', '}', '+', '$', '&', '~', '#', ' ', '/']),
        2 => prop::sample::select(p),
    ]
}

/// One pattern fragment as a list of pattern characters.
fn arb_fragment() -> impl Strategy<Value = Vec<PC>> {
    let n = |c: char| PC { c, lit: false };
    let member = prop_oneof![
        4 => arb_char().prop_map(move |c| vec![PC { c, lit: false }]),
        2 => arb_char().prop_map(move |c| vec![PC { c, lit: true }]),
        2 => (arb_char(), arb_char()).prop_map(move |(a, b)| {
            let (a, b) = if a <= b { (a, b) } else { (b, a) };
            vec![PC { c: a, lit: false }, PC { c: '-', lit: false }, PC { c: b, lit: false }]
        }),
        2 => prop::sample::select(m::CLASSES.to_vec()).prop_map(move |k| {
            let mut v = vec![n('['), n(':')];
            v.extend(k.chars().map(n));
            v.extend([n(':'), n(']')]);
            v
        }),
        2 => arb_char().prop_map(move |c| vec![n('['), n('.'), n(c), n('.'), n(']')]),
        2 => arb_char().prop_map(move |c| vec![n('['), n('='), n(c), n('='), n(']')]),
        1 => (arb_char(), arb_char()).prop_map(move |(a, b)| {
            let (a, b) = if a <= b { (a, b) } else { (b, a) };
            vec![n('['), n('.'), n(a), n('.'), n(']'), n('-'), n('['), n('.'), n(b), n('.'), n(']')]
        }),
    ];
    let bracket = (prop::option::of(prop::sample::select(vec!['!', '^'])), prop::collection::vec(member, 1..4), any::<bool>())
        .prop_map(move |(neg, members, close)| {
            let mut v = vec![n('[')];
            if let Some(c) = neg {
                v.push(n(c));
            }
            for mm in members {
                v.extend(mm);
            }
            if close {
                v.push(n(']'));
            }
            v
        });
    prop_oneof![
        4 => arb_char().prop_map(move |c| vec![PC { c, lit: false }]),
        2 => arb_char().prop_map(move |c| vec![PC { c, lit: true }]),
        2 => Just(vec![n('*')]),
        2 => Just(vec![n('?')]),
        5 => bracket,
    ]
}

pub fn arb_case() -> impl Strategy<Value = PatCase> {
    (prop::collection::vec(arb_fragment(), 1..5), prop::collection::vec(arb_char(), 0..6), 0usize..6, any::<u16>(), any::<bool>())
        .prop_map(|(frags, mut text, mode, seed, derive_text)| {
            let pat: Vec<PC> = frags.into_iter().flatten().collect();
            if derive_text {
                // bias towards strings related to the pattern: take members of the pattern
                let members: Vec<char> = pat.iter().map(|p| p.c).filter(|c| !matches!(c, '[' | ']' | '*' | '?')).collect();
                if !members.is_empty() {
                    let k = (seed as usize % 4) + 1;
                    text = (0..k).map(|i| members[(seed as usize / 7 + i * 3) % members.len()]).collect();
                }
            }
            PatCase { pat, text: text.into_iter().collect(), mode: MODES[mode] }
        })
}

pub fn run(ctx: &Ctx, st: &mut Stats) {
    // exhaustive tier
    let plen = ctx.tier.pick(4, 5);
    let slen = 3;
    let npat = count_strings(13, plen);
    let nstr = count_strings(11, slen);
    let total = npat * 2 * 6 * nstr;
    let decode = move |i: u64| -> Option<PatCase> {
        let si = i % nstr;
        let rest = i / nstr;
        let mode = MODES[(rest % 6) as usize];
        let rest = rest / 6;
        let escaped = rest % 2 == 1;
        let pi = rest / 2;
        let ptext = nth_string(&PAT_ALPHA, plen, pi)?;
        let pat = if escaped {
            if !ptext.contains('\\') {
                return None; // identical to the unescaped reading
            }
            let (p, trailing) = m::pcs_escaped(&ptext);
            if trailing {
                return None; // POSIX: unspecified
            }
            p
        } else {
            m::pcs_plain(&ptext)
        };
        Some(PatCase { pat, text: nth_string(&STR_ALPHA, slen, si)?, mode })
    };
    PAT.run_exhaustive(ctx, st, total, &decode);
    st.extra.insert("exhaustive_space".into(), serde_json::json!({"pattern_len": plen, "string_len": slen, "patterns": npat, "strings": nstr, "modes": 6}));

    // random tier
    let n = ctx.tier.pick(400_000, 20_000_000);
    PAT.run_random(ctx, st, n, arb_case);
    run_shell(ctx, st);
    // coverage-guided tier over the same oracle
    crate::fuzzing::tier_stage(ctx, st, &[("c04_pat", 600_000)]);
}

pub fn replay(driver: &str, case: &serde_json::Value) -> Result<(Outcome, Option<&'static str>), String> {
    match driver {
        "pattern" => PAT.replay_known(case),
        "shell" => SHELL.replay_known(case),
        _ => Err(format!("unknown driver {driver}")),
    }
}

// ---------------------------------------------------------------------------------------------
// Shell tier: the same oracle through `case` and `${v#p}`-family in the real shell

#[derive(Clone, Debug, PartialEq, Eq, Hash, Serialize, Deserialize)]
pub enum ShellKind {
    /// case TEXT in P1) ;; P2) ;; *) ;; esac
    Case,
    /// case TEXT in P1|P2|...) ;; *) ;; esac  — the alternatives of one item; a pattern whose
    /// meaning POSIX leaves undefined may or may not match, but must not stop a later
    /// well-defined alternative of the same item from selecting the item
    CaseAlt,
    Trim(TrimKind),
}

#[derive(Clone, Debug, PartialEq, Eq, Hash, Serialize, Deserialize)]
pub struct ShellPatCase {
    pub pats: Vec<Vec<PC>>,
    pub text: String,
    pub kind: ShellKind,
    /// inside double quotes (`"${v#p}"`) or not
    pub dq: bool,
}

fn safe_unquoted(c: char) -> bool {
    c.is_ascii_alphanumeric() || "*?[]!^-:=.,+@%_/".contains(c)
}

/// Renders a pattern as shell text: quoted characters get a backslash (or single quotes).
/// `style`: how quoted characters are written - 0 backslash, 1 single quotes, 2 double quotes
/// (runs of quoted characters share one pair; `$` `"` `\` and backquote are backslash-escaped
/// inside, which must not leave a backslash to be matched)
fn render_pattern(p: &[PC], style: u8) -> Option<String> {
    let mut s = String::new();
    let mut in_dq = false;
    for x in p {
        if x.lit && style == 2 {
            if !in_dq {
                s.push('"');
                in_dq = true;
            }
            if matches!(x.c, '$' | '"' | '\\' | '`') {
                s.push('\\');
            }
            s.push(x.c);
            continue;
        }
        if in_dq {
            s.push('"');
            in_dq = false;
        }
        if x.lit {
            if x.c == '\n' {
                s.push_str("'\n'");
            } else if style == 1 && x.c != '\'' {
                s.push('\'');
                s.push(x.c);
                s.push('\'');
            } else {
                s.push('\\');
                s.push(x.c);
            }
        } else if safe_unquoted(x.c) {
            s.push(x.c);
        } else {
            return None;
        }
    }
    if in_dq {
        s.push('"');
    }
    Some(s)
}

fn sh_quote(s: &str) -> String {
    format!("'{}'", s.replace('\'', "'\\''"))
}

fn check_shell_pat(c: &ShellPatCase) -> Outcome {
    let mut rendered = vec![];
    for (i, p) in c.pats.iter().enumerate() {
        // a pattern starting with an unquoted `!`/`^`... is fine; an empty pattern is rendered ''
        match render_pattern(p, ((i + c.text.len()) % 3) as u8) {
            Some(r) if !r.is_empty() => rendered.push(r),
            Some(_) => rendered.push("''".to_string()),
            None => return Outcome::skip("pattern needs an unquoted character the shell grammar reserves"),
        }
    }
    let t: Vec<char> = c.text.chars().collect();
    if c.kind == ShellKind::CaseAlt {
        let parsed: Vec<Result<Vec<m::Atom>, &'static str>> = c.pats.iter().map(|p| m::parse(p)).collect();
        let defined_match = parsed.iter().any(|p| p.as_ref().is_ok_and(|a| m::full_match(a, &t)));
        let any_undefined = parsed.iter().any(|p| p.is_err());
        if !defined_match && any_undefined {
            return Outcome::skip("only an undefined alternative could match");
        }
        let script = format!("case {} in\n({}) probe item ;;\n(*) probe none ;;\nesac\n", sh_quote(&c.text), rendered.join("|"));
        let r = crate::vsys::run(&crate::vsys::Setup::script(&script));
        if let Some(p) = &r.panic {
            return Outcome::fail(format!("panic: {p}\nscript:\n{script}"));
        }
        let got = r.main_trace().first().map(|t| t.args.first().cloned().unwrap_or_default());
        let expect = if defined_match { "item" } else { "none" };
        if got.as_deref() != Some(expect) {
            return Outcome::fail(format!("got {got:?}, expected {expect:?} (status {} stderr {:?})\nscript:\n{script}", r.status, r.stderr));
        }
        return Outcome::pass(true)
            .class("case-alternatives")
            .class_if(any_undefined, "undefined-alternative-next-to-defined-one");
    }
    let mut parsed = vec![];
    for p in &c.pats {
        match m::parse(p) {
            Ok(a) => parsed.push(a),
            Err(w) => return Outcome::skip(w),
        }
    }
    let (script, expect): (String, String) = match &c.kind {
        ShellKind::Case => {
            let mut s = format!("case {} in\n", sh_quote(&c.text));
            let mut chosen = None;
            for (i, r) in rendered.iter().enumerate() {
                // a leading `(` avoids `esac`-like keywords being misread
                s.push_str(&format!("({r}) probe item{i} ;;\n"));
                if chosen.is_none() && m::full_match(&parsed[i], &t) {
                    chosen = Some(i);
                }
            }
            s.push_str("(*) probe none ;;\nesac\n");
            (s, chosen.map_or("none".to_string(), |i| format!("item{i}")))
        }
        ShellKind::CaseAlt => unreachable!(),
        ShellKind::Trim(k) => {
            let op = match k {
                TrimKind::PrefixShortest => "#",
                TrimKind::PrefixLongest => "##",
                TrimKind::SuffixShortest => "%",
                TrimKind::SuffixLongest => "%%",
            };
            // a pattern beginning with `#`/`%` would merge with the operator: quote that character
            let guard = |r: &str| if r.starts_with('#') || r.starts_with('%') { format!("\\{r}") } else { r.to_string() };
            let r = guard(&rendered[0]);
            if r.contains('}') {
                return Outcome::skip("closing brace in pattern");
            }
            let word = format!("${{v{op}{r}}}");
            let s = if c.dq {
                // inside double quotes the pattern's own quoting still applies, but single quotes are
                // literal characters there: only backslash quoting is used (alt_quote off)
                let r = match render_pattern(&c.pats[0], 0) {
                    Some(r) => guard(&r),
                    None => return Outcome::skip("unrenderable"),
                };
                if r.contains('"') || r.contains('\'') || r.contains('`') || r.contains('$') {
                    return Outcome::skip("quote character inside a double-quoted modifier word");
                }
                format!("v={}\nprobe \"${{v{op}{r}}}\"\n", sh_quote(&c.text))
            } else {
                format!("set -f\nIFS=\nv={}\nprobe {word}\n", sh_quote(&c.text))
            };
            (s, m::trim(&parsed[0], &t, *k))
        }
    };
    let r = crate::vsys::run(&crate::vsys::Setup::script(&script));
    if let Some(p) = &r.panic {
        return Outcome::fail(format!("panic: {p}\nscript:\n{script}"));
    }
    let trace = r.main_trace();
    let got: Option<String> = match (&c.kind, trace.first()) {
        (_, None) => None,
        (_, Some(t)) => Some(t.args.first().cloned().unwrap_or_default()),
    };
    // an unquoted empty result yields no field at all
    let got_s = got.clone().unwrap_or_default();
    if trace.len() != 1 && !(trace.is_empty() && r.status != 0) {
        return Outcome::fail(format!("probe ran {} times; stderr {:?}\nscript:\n{script}", trace.len(), r.stderr));
    }
    if trace.is_empty() {
        return Outcome::fail(format!("the shell rejected a well-defined pattern: status {} stderr {:?}\nscript:\n{script}", r.status, r.stderr));
    }
    if got_s != expect {
        return Outcome::fail(format!("got {got_s:?}, POSIX pattern notation gives {expect:?}\nscript:\n{script}"));
    }
    Outcome::pass(parsed.iter().any(|a| m::has_special(a)))
        .class(match c.kind { ShellKind::Case | ShellKind::CaseAlt => "case", ShellKind::Trim(_) => "trim" })
        .class_if(c.dq, "double-quoted")
        .class_if(c.pats.iter().flatten().any(|p| p.lit), "quoted-pattern-char")
}

pub static SHELL: Driver<ShellPatCase> = Driver::new("C04", "shell", check_shell_pat);

fn arb_shell_char() -> impl Strategy<Value = char> {
    prop_oneof![
        4 => prop::sample::select(vec!['a', 'b', 'c', 'x', 'A', '0', '9']),
        4 => prop::sample::select(vec!['.', '-', '*', '?', '[', ']', '!', '^', ':', '=', ',', '+', '@', '%', '_']),
        2 => prop::sample::select(vec!['\\', '|', '(', ')', '{', '$', '&', '~', '#', ' ', ';', '<', '>', '"', '\'', '\n', 'é']),
    ]
}

fn arb_shell_case() -> impl Strategy<Value = ShellPatCase> {
    let pc = (arb_shell_char(), prop::bool::weighted(0.25)).prop_map(|(c, lit)| PC { c, lit: lit || !safe_unquoted(c) });
    let undefined = prop::sample::select(vec!["[[..]]", "[[:nothing:]]", "[[:digit:]-0]", "[z-a]", "[[==]]", "[a-c-e]"]).prop_map(|s: &str| m::pcs_plain(s));
    let pat = prop_oneof![
        1 => undefined,
        3 => prop::collection::vec(pc, 0..6),
        2 => prop::collection::vec(arb_fragment(), 1..4).prop_map(|f| {
            f.into_iter().flatten().map(|p| PC { c: p.c, lit: p.lit || !safe_unquoted(p.c) }).collect::<Vec<PC>>()
        }),
    ];
    (
        prop::collection::vec(pat, 1..4),
        prop::collection::vec(arb_shell_char(), 0..6),
        prop_oneof![
            2 => Just(ShellKind::Case),
            2 => Just(ShellKind::CaseAlt),
            1 => Just(ShellKind::Trim(TrimKind::PrefixShortest)),
            1 => Just(ShellKind::Trim(TrimKind::PrefixLongest)),
            1 => Just(ShellKind::Trim(TrimKind::SuffixShortest)),
            1 => Just(ShellKind::Trim(TrimKind::SuffixLongest)),
        ],
        any::<bool>(),
        any::<u16>(),
    )
        .prop_map(|(pats, mut text, kind, dq, seed)| {
            // bias the subject towards members of the first pattern
            let members: Vec<char> = pats[0].iter().map(|p| p.c).filter(|c| !matches!(c, '[' | ']' | '*' | '?')).collect();
            if seed % 2 == 0 && !members.is_empty() {
                let k = (seed as usize / 2 % 4) + 1;
                text = (0..k).map(|i| members[(seed as usize / 11 + i * 3) % members.len()]).collect();
            }
            ShellPatCase { pats, text: text.into_iter().collect(), kind, dq }
        })
}

pub fn run_shell(ctx: &Ctx, st: &mut Stats) {
    let n = ctx.tier.pick(120_000, 6_000_000);
    SHELL.run_random(ctx, st, n, arb_shell_case);
}
