//! C12 — the job table stays consistent over every history of job events.
//!
//! Code under test: `yash_env::job::JobList` (insert, remove, remove_if, update_status,
//! set_current_job, current_job, previous_job, find_by_pid, iter, get, get_mut) and
//! `yash_env::job::id` (job ID parsing and resolution).
//!
//! Oracle: a naive shadow table (`BTreeMap<index, SJob>`) that only records what the harness itself
//! put into the list (pid, state, name, flags) under the index `insert` returned. It never predicts
//! *which* job is current/previous; it checks, after every step and through the public API only,
//! the invariants promised by the property statement and by the doc comments of `job.rs`/`id.rs`,
//! plus the per-operation selection rules that the doc comments spell out.

use crate::engine::*;
use proptest::prelude::*;
use serde::{Deserialize, Serialize};
use std::cell::RefCell;
use std::collections::{BTreeMap, HashSet};
use std::num::NonZeroUsize;
use std::sync::Mutex;
use std::sync::atomic::{AtomicU8, Ordering};
use yash_env::job::id::{self as jobid, FindError, JobId};
use yash_env::job::{Job, JobList, Pid, ProcessResult, ProcessState, SetCurrentJobError};
use yash_env::semantics::ExitStatus;
use yash_env::system::r#virtual::{SIGKILL, SIGSTOP, SIGTSTP};

pub const INFO: PropInfo = PropInfo {
    id: "C12",
    level: "exploration",
    rule: "case = history of job-list operations {add (running/stopped, fresh pid or pid of a removed or finished job), update_status (running/SIGTSTP/SIGSTOP/exited/killed), set_current_job, remove, remove_if(predicate), state_reported, expect, disown_all} over a pool of <=6 pids; all invariants are checked after every step. Exhaustive tier: every valid history over a canonical alphabet (selectors canonicalised so that no two enumerated histories are the same sequence of calls), enumerated without rejection by unranking a 3^P-state validity automaton: full alphabet (3 pids, 2 names, add/update/set-current incl. dead index/remove/remove_if finished|all/report) for lengths 1..5 (quick) / 1..6 (thorough), core alphabet (name fixed by position, no report) for length 6 (quick) / 7 (thorough), and the histories that use a 4th pid (core alphabet, lengths 1..5 quick; full alphabet lengths 1..5 and core length 6 thorough); see exhaustive_space. Random tier: proptest histories of length <=60 over 1..6 pids and 4 names. Non-trivial = the history contains >=1 transition of a job into the stopped state (update_status non-stopped->stopped, or insertion of a stopped job) AND >=1 actual removal of a job (remove of a live index, or remove_if that removed >=1 job); distinct by enumeration index (exhaustive) / serialised case (random). `states` = number of distinct observable table states (live jobs with all fields, current, previous) visited by the exhaustive tier.",
    assumptions: &[
        "a pid is only re-inserted when no live job with that pid is still running or stopped (the OS cannot hand out the pid of an unreaped/live process); re-inserting the pid of a finished job that is still in the table is included (documented: the existing job is silently removed)",
        "update_status may be applied to any live job in any state, including finished ones (pid reuse by a process that is not a job)",
        "which job becomes current/previous is checked only where the doc comments of JobList say so; otherwise only the invariants of current_job()/previous_job() are demanded",
        "%%, %+, %- are compared against current_job()/previous_job() (themselves constrained by the invariants); %n, %prefix, %?sub against the shadow table",
    ],
};

// -------------------------------------------------------------------------------------------
// Case type

#[derive(Clone, Copy, Debug, PartialEq, Eq, Hash, Serialize, Deserialize)]
pub enum St {
    Run,
    Tstp,
    Stop,
    Exit(u8),
    Kill,
}

impl St {
    fn real(self) -> ProcessState {
        match self {
            St::Run => ProcessState::Running,
            St::Tstp => ProcessState::stopped(SIGTSTP),
            St::Stop => ProcessState::stopped(SIGSTOP),
            St::Exit(n) => ProcessState::exited(ExitStatus(n as _)),
            St::Kill => ProcessState::Halted(ProcessResult::Signaled { signal: SIGKILL, core_dump: false }),
        }
    }
    fn stopped(self) -> bool {
        matches!(self, St::Tstp | St::Stop)
    }
    fn finished(self) -> bool {
        matches!(self, St::Exit(_) | St::Kill)
    }
}

#[derive(Clone, Copy, Debug, PartialEq, Eq, Hash, Serialize, Deserialize)]
pub enum Pred {
    /// remove nothing
    None,
    /// remove every job
    All,
    /// remove finished (exited / killed) jobs
    Finished,
    /// remove stopped jobs
    Stopped,
    /// remove running jobs
    Running,
    /// remove jobs whose state_changed flag is clear
    Unchanged,
    /// what `jobs` does: report every job (clear state_changed), remove the finished ones
    ReportAllRemoveFinished,
    /// remove jobs with an odd index
    OddIndex,
}

/// Selector fields (`pid`, `job`) are mapped with `pick_idx` onto the candidates that exist at
/// that point of the history (see `Sim::apply`), so every history is valid.
#[derive(Clone, Copy, Debug, PartialEq, Eq, Hash, Serialize, Deserialize)]
pub enum Op {
    /// insert a job. `pid` selects among the pool pids not held by a live unfinished job
    /// (ascending); `bg`: also set_last_async_pid
    Add { pid: u16, st: St, jc: bool, name: u8, bg: bool },
    /// update_status of a live job (`job` selects among live jobs in ascending pid order)
    Update { job: u16, st: St },
    /// update_status for a pid that no job has
    UpdateUnknown { st: St },
    /// set_current_job; `job` selects among live jobs (ascending pid) plus one dead index (last)
    SetCurrent { job: u16 },
    /// remove; same selection as SetCurrent
    Remove { job: u16 },
    RemoveIf { pred: Pred },
    /// get_mut(i).state_reported()
    Report { job: u16 },
    /// get_mut(i).expect(state)
    Expect { job: u16, st: Option<St> },
    DisownAll,
}

#[derive(Clone, Debug, Serialize, Deserialize)]
pub struct History {
    /// size of the pid pool (1..=6)
    pub pids: u8,
    pub ops: Vec<Op>,
}

const NAMES: [&str; 4] = ["ab", "abc", "cab", "x y"];
const UNKNOWN_PID: i32 = 99;

fn pid_of(k: usize) -> i32 {
    101 + 3 * k as i32
}

// -------------------------------------------------------------------------------------------
// Job ID queries

#[derive(Clone, Copy, Debug, PartialEq, Eq)]
enum Q {
    Cur,
    Prev,
    Num(usize),
    Prefix(&'static str),
    Sub(&'static str),
}

const QUERIES: &[(&str, Q)] = &[
    ("%", Q::Cur),
    ("%%", Q::Cur),
    ("%+", Q::Cur),
    ("%-", Q::Prev),
    ("%1", Q::Num(1)),
    ("%2", Q::Num(2)),
    ("%3", Q::Num(3)),
    ("%4", Q::Num(4)),
    ("%7", Q::Num(7)),
    ("%a", Q::Prefix("a")),
    ("%ab", Q::Prefix("ab")),
    ("%abc", Q::Prefix("abc")),
    ("%c", Q::Prefix("c")),
    ("%x y", Q::Prefix("x y")),
    ("%zz", Q::Prefix("zz")),
    ("%?a", Q::Sub("a")),
    ("%?c", Q::Sub("c")),
    ("%?bc", Q::Sub("bc")),
    ("%? ", Q::Sub(" ")),
    ("%?zz", Q::Sub("zz")),
    ("%?", Q::Sub("")),
];

// -------------------------------------------------------------------------------------------
// Shadow model and simulation

#[derive(Clone, Debug, PartialEq, Eq, Hash)]
struct SJob {
    pid: i32,
    st: St,
    jc: bool,
    name: &'static str,
    changed: bool,
    expected: Option<St>,
    owned: bool,
}

#[derive(Default)]
struct Flags {
    has_stop: bool,
    has_remove: bool,
    pid_reuse_removed: bool,
    pid_reuse_finished: bool,
    index_reuse: bool,
    set_current_ok: bool,
    set_current_refused: bool,
    set_current_nosuch: bool,
    jobid_ambiguous: bool,
    jobid_name_unique: bool,
    remove_current: bool,
    remove_previous: bool,
    remove_dead: bool,
    remove_if_removed: bool,
    resume_current: bool,
    resume_previous: bool,
    finish_current: bool,
    update_after_finish: bool,
    stop_to_stop: bool,
    expected_match: bool,
    two_stopped: bool,
    three_stopped: bool,
    noop: bool,
    max_live: usize,
}

struct Sim {
    pool: usize,
    list: JobList,
    live: BTreeMap<usize, SJob>,
    last_async: i32,
    removed_pids: Vec<i32>,
    freed_indices: Vec<usize>,
    flags: Flags,
}

fn susp_count(live: &BTreeMap<usize, SJob>) -> usize {
    live.values().filter(|j| j.st.stopped()).count()
}

impl Sim {
    fn new(pool: usize) -> Self {
        Sim {
            pool,
            list: JobList::new(),
            live: BTreeMap::new(),
            last_async: 0,
            removed_pids: vec![],
            freed_indices: vec![],
            flags: Flags::default(),
        }
    }

    /// live jobs as (index, pid) in ascending pid order
    fn by_pid(&self) -> Vec<(usize, i32)> {
        let mut v: Vec<(usize, i32)> = self.live.iter().map(|(i, j)| (*i, j.pid)).collect();
        v.sort_by_key(|x| x.1);
        v
    }

    fn dead_index(&self) -> usize {
        (0..).find(|i| !self.live.contains_key(i)).unwrap()
    }

    /// live jobs (ascending pid) followed by one index that designates no job
    fn slots_with_dead(&self) -> Vec<usize> {
        let mut v: Vec<usize> = self.by_pid().into_iter().map(|x| x.0).collect();
        v.push(self.dead_index());
        v
    }

    fn note_removed(&mut self, index: usize, pid: i32) {
        self.removed_pids.push(pid);
        self.freed_indices.push(index);
        self.flags.has_remove = true;
    }

    fn apply(&mut self, op: &Op) -> Result<(), String> {
        let old_cur = self.list.current_job();
        let old_prev = self.list.previous_job();
        let pre = self.live.clone();
        let stopped_pre = |i: Option<usize>| i.and_then(|i| pre.get(&i)).map(|j| j.st.stopped());
        match *op {
            Op::Add { pid, st, jc, name, bg } => {
                let cands: Vec<i32> = (0..self.pool)
                    .map(pid_of)
                    .filter(|p| !self.live.values().any(|j| j.pid == *p && !j.st.finished()))
                    .collect();
                if cands.is_empty() {
                    self.flags.noop = true;
                    return Ok(());
                }
                let pid = cands[pick_idx(pid, cands.len())];
                let name = NAMES[name as usize % NAMES.len()];
                let replaced = self.live.iter().find(|(_, j)| j.pid == pid).map(|(i, _)| *i);
                let mut job = Job::new(Pid(pid));
                job.state = st.real();
                job.job_controlled = jc;
                job.name = name.to_string();
                let idx = self.list.insert(job);
                if self.live.contains_key(&idx) && Some(idx) != replaced {
                    return Err(format!(
                        "insert(pid {pid}) returned index {idx}, which still designates the live job with pid {}",
                        self.live[&idx].pid
                    ));
                }
                if let Some(r) = replaced {
                    self.live.remove(&r);
                    self.flags.pid_reuse_finished = true;
                } else if self.removed_pids.contains(&pid) {
                    self.flags.pid_reuse_removed = true;
                }
                if self.freed_indices.contains(&idx) {
                    self.flags.index_reuse = true;
                }
                self.live.insert(idx, SJob { pid, st, jc, name, changed: true, expected: None, owned: true });
                if bg {
                    self.list.set_last_async_pid(Pid(pid));
                    self.last_async = pid;
                }
                if st.stopped() {
                    self.flags.has_stop = true;
                    // doc of insert: "If the new job is suspended and the current job is not, the
                    // new job becomes the current job. If the new job and the current job are
                    // suspended but the previous job is not, the new job becomes the previous job."
                    match stopped_pre(old_cur) {
                        Some(false) => {
                            if self.list.current_job() != Some(idx) {
                                return Err(format!(
                                    "inserted a stopped job at index {idx} while the current job ({old_cur:?}) was not stopped, but current_job() = {:?}",
                                    self.list.current_job()
                                ));
                            }
                        }
                        Some(true) => {
                            if stopped_pre(old_prev) == Some(false) && self.list.previous_job() != Some(idx) {
                                return Err(format!(
                                    "inserted a stopped job at index {idx} while the current job was stopped and the previous job ({old_prev:?}) was not, but previous_job() = {:?}",
                                    self.list.previous_job()
                                ));
                            }
                        }
                        None => {}
                    }
                }
            }
            Op::Update { job, st } => {
                let l = self.by_pid();
                if l.is_empty() {
                    self.flags.noop = true;
                    return Ok(());
                }
                let (idx, pid) = l[pick_idx(job, l.len())];
                let was = self.live[&idx].st;
                let r = self.list.update_status(Pid(pid), st.real());
                if r != Some(idx) {
                    return Err(format!("update_status(pid {pid}) returned {r:?}, the job with that pid has index {idx}"));
                }
                let j = self.live.get_mut(&idx).unwrap();
                j.st = st;
                if j.expected != Some(st) {
                    j.changed = true;
                } else {
                    self.flags.expected_match = true;
                }
                j.expected = None;
                if was.finished() {
                    self.flags.update_after_finish = true;
                }
                if was.stopped() && st.stopped() {
                    self.flags.stop_to_stop = true;
                }
                let cur = self.list.current_job();
                let prev = self.list.previous_job();
                if !was.stopped() && st.stopped() {
                    self.flags.has_stop = true;
                    // "When a job is suspended, the job becomes the current job and the old
                    // current job becomes the previous job."
                    if cur != Some(idx) {
                        return Err(format!("job {idx} became stopped but current_job() = {cur:?}"));
                    }
                    if old_cur != Some(idx) && prev != old_cur {
                        return Err(format!(
                            "job {idx} became stopped; the old current job {old_cur:?} should be the previous job but previous_job() = {prev:?}"
                        ));
                    }
                }
                if was.stopped() && !st.stopped() {
                    if Some(idx) == old_cur {
                        if st.finished() {
                            self.flags.finish_current = true;
                        } else {
                            self.flags.resume_current = true;
                        }
                        if let Some(p) = old_prev {
                            if pre[&p].st.stopped() {
                                // "If the updated job is the current job and the previous job is
                                // suspended, the previous job becomes the current job and the new
                                // previous job is chosen from other suspended jobs. If there is no
                                // suspended jobs, the new previous jobs is the old current job."
                                if cur != Some(p) {
                                    return Err(format!(
                                        "stopped current job {idx} left the stopped state while the previous job {p} was stopped, but current_job() = {cur:?}"
                                    ));
                                }
                                let others = self.live.iter().any(|(i, j)| *i != p && j.st.stopped());
                                if !others && prev != Some(idx) {
                                    return Err(format!(
                                        "stopped current job {idx} left the stopped state, no other stopped job besides the new current {p}: previous should be {idx}, previous_job() = {prev:?}"
                                    ));
                                }
                            }
                        }
                    } else if Some(idx) == old_prev {
                        self.flags.resume_previous = true;
                    }
                }
            }
            Op::UpdateUnknown { st } => {
                let r = self.list.update_status(Pid(UNKNOWN_PID), st.real());
                if r.is_some() {
                    return Err(format!("update_status(pid {UNKNOWN_PID}), a pid of no job, returned {r:?}"));
                }
                if self.list.current_job() != old_cur || self.list.previous_job() != old_prev {
                    return Err("update_status for a pid of no job changed the current/previous job".into());
                }
            }
            Op::SetCurrent { job } => {
                let slots = self.slots_with_dead();
                let idx = slots[pick_idx(job, slots.len())];
                let r = self.list.set_current_job(idx);
                let expect = match self.live.get(&idx) {
                    None => Err(SetCurrentJobError::NoSuchJob),
                    Some(j) if !j.st.stopped() && susp_count(&self.live) > 0 => Err(SetCurrentJobError::NotSuspended),
                    Some(_) => Ok(()),
                };
                if r != expect {
                    return Err(format!("set_current_job({idx}) returned {r:?}, documented result {expect:?}"));
                }
                match r {
                    Ok(()) => {
                        self.flags.set_current_ok = true;
                        let cur = self.list.current_job();
                        let prev = self.list.previous_job();
                        if cur != Some(idx) {
                            return Err(format!("set_current_job({idx}) succeeded but current_job() = {cur:?}"));
                        }
                        if old_cur != Some(idx) && prev != old_cur {
                            return Err(format!(
                                "set_current_job({idx}) succeeded; old current {old_cur:?} should be the previous job, previous_job() = {prev:?}"
                            ));
                        }
                    }
                    Err(SetCurrentJobError::NoSuchJob) => self.flags.set_current_nosuch = true,
                    Err(SetCurrentJobError::NotSuspended) => self.flags.set_current_refused = true,
                }
            }
            Op::Remove { job } => {
                let slots = self.slots_with_dead();
                let idx = slots[pick_idx(job, slots.len())];
                let r = self.list.remove(idx);
                match (self.live.remove(&idx), r) {
                    (None, None) => self.flags.remove_dead = true,
                    (None, Some(j)) => return Err(format!("remove({idx}) of an index of no job returned a job (pid {})", j.pid)),
                    (Some(s), None) => return Err(format!("remove({idx}) returned None, but that index designates the live job with pid {}", s.pid)),
                    (Some(s), Some(j)) => {
                        if let Some(e) = diff_job(&j, &s) {
                            return Err(format!("remove({idx}) returned a different job than the one inserted there: {e}"));
                        }
                        self.note_removed(idx, s.pid);
                        if Some(idx) == old_cur {
                            self.flags.remove_current = true;
                            // "If the removed job is the current job, the previous job becomes
                            // the current job"
                            if let Some(p) = old_prev {
                                if self.list.current_job() != Some(p) {
                                    return Err(format!(
                                        "removed the current job {idx}; the previous job {p} should become current, current_job() = {:?}",
                                        self.list.current_job()
                                    ));
                                }
                            }
                        } else if Some(idx) == old_prev {
                            self.flags.remove_previous = true;
                        }
                    }
                }
            }
            Op::RemoveIf { pred } => {
                let mut calls: Vec<(usize, i32)> = vec![];
                self.list.remove_if(|i, mut j| {
                    calls.push((i, j.pid.0));
                    match pred {
                        Pred::None => false,
                        Pred::All => true,
                        Pred::Finished => !j.state.is_alive(),
                        Pred::Stopped => j.state.is_stopped(),
                        Pred::Running => j.state == ProcessState::Running,
                        Pred::Unchanged => !j.state_changed,
                        Pred::ReportAllRemoveFinished => {
                            j.state_reported();
                            !j.state.is_alive()
                        }
                        Pred::OddIndex => i % 2 == 1,
                    }
                });
                let mut seen = HashSet::new();
                for (i, p) in &calls {
                    match pre.get(i) {
                        Some(s) if s.pid == *p => {}
                        other => {
                            return Err(format!(
                                "remove_if called the predicate with index {i} and a job with pid {p}; the table had {:?} there",
                                other.map(|s| s.pid)
                            ));
                        }
                    }
                    if !seen.insert(*i) {
                        return Err(format!("remove_if called the predicate twice for index {i}"));
                    }
                }
                let mut removed = vec![];
                for (i, s) in self.live.iter_mut() {
                    let rm = match pred {
                        Pred::None => false,
                        Pred::All => true,
                        Pred::Finished => s.st.finished(),
                        Pred::Stopped => s.st.stopped(),
                        Pred::Running => s.st == St::Run,
                        Pred::Unchanged => !s.changed,
                        Pred::ReportAllRemoveFinished => {
                            s.changed = false;
                            s.st.finished()
                        }
                        Pred::OddIndex => i % 2 == 1,
                    };
                    if rm {
                        removed.push((*i, s.pid));
                    }
                }
                for (i, p) in removed {
                    self.live.remove(&i);
                    self.note_removed(i, p);
                    self.flags.remove_if_removed = true;
                    if Some(i) == old_cur {
                        self.flags.remove_current = true;
                    }
                }
            }
            Op::Report { job } => {
                let l = self.by_pid();
                if l.is_empty() {
                    self.flags.noop = true;
                    return Ok(());
                }
                let (idx, _) = l[pick_idx(job, l.len())];
                match self.list.get_mut(idx) {
                    Some(mut j) => j.state_reported(),
                    None => return Err(format!("get_mut({idx}) is None for a live job")),
                }
                self.live.get_mut(&idx).unwrap().changed = false;
            }
            Op::Expect { job, st } => {
                let l = self.by_pid();
                if l.is_empty() {
                    self.flags.noop = true;
                    return Ok(());
                }
                let (idx, _) = l[pick_idx(job, l.len())];
                match self.list.get_mut(idx) {
                    Some(mut j) => j.expect(st.map(St::real)),
                    None => return Err(format!("get_mut({idx}) is None for a live job")),
                }
                self.live.get_mut(&idx).unwrap().expected = st;
            }
            Op::DisownAll => {
                self.list.disown_all();
                for j in self.live.values_mut() {
                    j.owned = false;
                }
            }
        }
        Ok(())
    }

    /// The invariants, evaluated through the public API.
    fn check(&mut self) -> Result<(), String> {
        let list = &self.list;
        let live = &self.live;
        // iter() yields exactly the live jobs, in index order, with the data the harness put there
        let got: Vec<(usize, &Job)> = list.iter().collect();
        if got.len() != live.len() || list.len() != live.len() || list.is_empty() != live.is_empty() {
            return Err(format!(
                "iter() yields {} jobs, len() = {}, is_empty() = {}; {} jobs are live (indices {:?} vs {:?})",
                got.len(),
                list.len(),
                list.is_empty(),
                live.len(),
                got.iter().map(|g| g.0).collect::<Vec<_>>(),
                live.keys().collect::<Vec<_>>()
            ));
        }
        for ((gi, gj), (si, sj)) in got.iter().zip(live.iter()) {
            if gi != si {
                return Err(format!(
                    "iter() yields indices {:?}, live jobs have indices {:?}",
                    got.iter().map(|g| g.0).collect::<Vec<_>>(),
                    live.keys().collect::<Vec<_>>()
                ));
            }
            if let Some(e) = diff_job(gj, sj) {
                return Err(format!("job at index {gi}: {e}"));
            }
        }
        // get()
        let top = live.keys().next_back().map_or(0, |m| m + 1);
        for i in 0..=top + 1 {
            match (list.get(i), live.get(&i)) {
                (None, None) => {}
                (Some(j), Some(s)) if j.pid.0 == s.pid => {}
                (g, s) => {
                    return Err(format!(
                        "get({i}) = {:?}, live job there: {:?}",
                        g.map(|j| j.pid.0),
                        s.map(|s| s.pid)
                    ));
                }
            }
        }
        // pid index
        for p in (0..self.pool).map(pid_of).chain([UNKNOWN_PID]) {
            let want = live.iter().find(|(_, j)| j.pid == p).map(|(i, _)| *i);
            let gotp = list.find_by_pid(Pid(p));
            if gotp != want {
                return Err(format!("find_by_pid({p}) = {gotp:?}, but the live job with that pid has index {want:?}"));
            }
        }
        // current / previous
        let cur = list.current_job();
        let prev = list.previous_job();
        let nsusp = susp_count(live);
        if let Some(c) = cur {
            if !live.contains_key(&c) {
                return Err(format!("current_job() = {c}, which is not a live job"));
            }
        }
        if let Some(p) = prev {
            if !live.contains_key(&p) {
                return Err(format!("previous_job() = {p}, which is not a live job"));
            }
            if Some(p) == cur {
                return Err(format!("previous_job() = current_job() = {p}"));
            }
        }
        if !live.is_empty() && cur.is_none() {
            return Err(format!("{} jobs but current_job() is None", live.len()));
        }
        if live.is_empty() && cur.is_some() {
            return Err(format!("no jobs but current_job() = {cur:?}"));
        }
        if live.len() >= 2 && prev.is_none() {
            return Err(format!("{} jobs but previous_job() is None", live.len()));
        }
        if live.len() < 2 && prev.is_some() {
            return Err(format!("{} job(s) but previous_job() = {prev:?}", live.len()));
        }
        if nsusp >= 1 && !live[&cur.unwrap()].st.stopped() {
            return Err(format!(
                "{nsusp} stopped job(s) exist but the current job {} is {:?}",
                cur.unwrap(),
                live[&cur.unwrap()].st
            ));
        }
        if nsusp >= 2 && !live[&prev.unwrap()].st.stopped() {
            return Err(format!(
                "{nsusp} stopped jobs exist but the previous job {} is {:?}",
                prev.unwrap(),
                live[&prev.unwrap()].st
            ));
        }
        // $!
        if list.last_async_pid().0 != self.last_async {
            return Err(format!("last_async_pid() = {}, last set to {}", list.last_async_pid(), self.last_async));
        }
        // job IDs
        let mut ambiguous = false;
        let mut unique = false;
        for (text, q) in QUERIES {
            let parsed = jobid::parse(text);
            let want_parse = match *q {
                Q::Cur => JobId::CurrentJob,
                Q::Prev => JobId::PreviousJob,
                Q::Num(n) => JobId::JobNumber(NonZeroUsize::new(n).unwrap()),
                Q::Prefix(s) => JobId::NamePrefix(s),
                Q::Sub(s) => JobId::NameSubstring(s),
            };
            if parsed != Ok(want_parse) {
                return Err(format!("job ID {text:?} parsed as {parsed:?}, documented {want_parse:?}"));
            }
            let found = parsed.unwrap().find(list);
            let name_match = |f: &dyn Fn(&str) -> bool| {
                let mut it = live.iter().filter(|(_, j)| f(j.name)).map(|(i, _)| *i);
                match (it.next(), it.next()) {
                    (None, _) => Err(FindError::NotFound),
                    (Some(i), None) => Ok(i),
                    (Some(_), Some(_)) => Err(FindError::Ambiguous),
                }
            };
            let want = match *q {
                Q::Cur => cur.ok_or(FindError::NotFound),
                Q::Prev => prev.ok_or(FindError::NotFound),
                Q::Num(n) => {
                    if live.contains_key(&(n - 1)) {
                        Ok(n - 1)
                    } else {
                        Err(FindError::NotFound)
                    }
                }
                Q::Prefix(s) => name_match(&|n| n.starts_with(s)),
                Q::Sub(s) => name_match(&|n| n.contains(s)),
            };
            if found != want {
                return Err(format!("job ID {text:?} resolved to {found:?}, documented {want:?}"));
            }
            if matches!(q, Q::Prefix(_) | Q::Sub(_)) {
                ambiguous |= want == Err(FindError::Ambiguous);
                unique |= want.is_ok() && live.len() >= 2;
            }
        }
        self.flags.jobid_ambiguous |= ambiguous;
        self.flags.jobid_name_unique |= unique;
        self.flags.max_live = self.flags.max_live.max(live.len());
        self.flags.two_stopped |= nsusp >= 2;
        self.flags.three_stopped |= nsusp >= 3;
        note_state(hash_of(&(live, cur, prev)));
        Ok(())
    }

    fn dump(&self) -> String {
        let jobs: Vec<String> = self
            .live
            .iter()
            .map(|(i, j)| format!("[{}] pid {} {:?} {:?}", i, j.pid, j.st, j.name))
            .collect();
        format!(
            "table: {{{}}} current_job()={:?} previous_job()={:?}",
            jobs.join(", "),
            self.list.current_job(),
            self.list.previous_job()
        )
    }
}

fn diff_job(j: &Job, s: &SJob) -> Option<String> {
    if j.pid.0 != s.pid {
        return Some(format!("pid {} but the job inserted at this index has pid {}", j.pid, s.pid));
    }
    if j.state != s.st.real() {
        return Some(format!("state {:?}, last state given for pid {} is {:?}", j.state, s.pid, s.st));
    }
    if j.job_controlled != s.jc || j.name != s.name || j.is_owned != s.owned {
        return Some(format!(
            "job_controlled/name/is_owned = {}/{:?}/{}, expected {}/{:?}/{}",
            j.job_controlled, j.name, j.is_owned, s.jc, s.name, s.owned
        ));
    }
    if j.state_changed != s.changed {
        return Some(format!("state_changed = {}, documented {} (pid {})", j.state_changed, s.changed, s.pid));
    }
    if j.expected_state != s.expected.map(St::real) {
        return Some(format!("expected_state = {:?}, documented {:?}", j.expected_state, s.expected));
    }
    None
}

// ---- distinct observable states (statistics only) ----

/// 0 = off, 1 = exhaustive tier, 2 = random tier
static STATE_MODE: AtomicU8 = AtomicU8::new(0);
static STATES: Mutex<Option<HashSet<u64>>> = Mutex::new(None);
thread_local! {
    static LOCAL_STATES: RefCell<(u8, HashSet<u64>)> = RefCell::new((0, HashSet::new()));
}

/// The random tier's count is capped so that the bookkeeping stays small in the thorough tier.
const RANDOM_STATES_CAP: usize = 4_000_000;

fn note_state(h: u64) {
    let mode = STATE_MODE.load(Ordering::Relaxed);
    if mode == 0 {
        return;
    }
    let fresh = LOCAL_STATES.with(|l| {
        let mut l = l.borrow_mut();
        if l.0 != mode || l.1.len() > 1_000_000 {
            l.0 = mode;
            l.1.clear();
        }
        l.1.insert(h)
    });
    if fresh {
        if let Some(set) = STATES.lock().unwrap().as_mut() {
            if mode == 1 || set.len() < RANDOM_STATES_CAP {
                set.insert(h);
            }
        }
    }
}

fn states_begin(mode: u8) {
    *STATES.lock().unwrap() = Some(HashSet::new());
    STATE_MODE.store(mode, Ordering::SeqCst);
}

fn states_end() -> u64 {
    STATE_MODE.store(0, Ordering::SeqCst);
    STATES.lock().unwrap().take().map_or(0, |s| s.len() as u64)
}

// -------------------------------------------------------------------------------------------
// Check

fn check_history(c: &History) -> Outcome {
    let pool = (c.pids as usize).clamp(1, 6);
    let mut sim = Sim::new(pool);
    if let Err(e) = sim.check() {
        return Outcome::fail(format!("empty table: {e}"));
    }
    for (n, op) in c.ops.iter().enumerate() {
        let r = sim.apply(op).and_then(|()| sim.check());
        if let Err(e) = r {
            return Outcome::fail(format!("step {} ({:?}): {e}; {}", n + 1, op, sim.dump()));
        }
    }
    let f = &sim.flags;
    Outcome::pass(f.has_stop && f.has_remove)
        .class_if(f.has_stop, "has-stop")
        .class_if(f.has_remove, "has-remove")
        .class_if(f.pid_reuse_removed, "pid-reuse-after-remove")
        .class_if(f.pid_reuse_finished, "pid-reuse-replaces-finished-job")
        .class_if(f.index_reuse, "index-reuse")
        .class_if(f.set_current_ok, "set-current-ok")
        .class_if(f.set_current_refused, "set-current-refused-not-suspended")
        .class_if(f.set_current_nosuch, "set-current-no-such-job")
        .class_if(f.jobid_ambiguous, "jobid-ambiguous")
        .class_if(f.jobid_name_unique, "jobid-name-unique-among-several")
        .class_if(f.remove_current, "remove-current")
        .class_if(f.remove_previous, "remove-previous")
        .class_if(f.remove_dead, "remove-dead-index")
        .class_if(f.remove_if_removed, "remove-if-removed-some")
        .class_if(f.resume_current, "resume-stopped-current")
        .class_if(f.finish_current, "finish-stopped-current")
        .class_if(f.resume_previous, "unstop-stopped-previous")
        .class_if(f.update_after_finish, "update-after-finish")
        .class_if(f.stop_to_stop, "stopped-to-stopped")
        .class_if(f.expected_match, "expected-state-matched")
        .class_if(f.two_stopped, "two-stopped")
        .class_if(f.three_stopped, "three-stopped")
        .class_if(f.noop, "has-inapplicable-op")
        .class(match f.max_live {
            0 => "max-live-0",
            1 => "max-live-1",
            2 => "max-live-2",
            3 => "max-live-3",
            4 => "max-live-4",
            _ => "max-live-5+",
        })
}

/// Classification of failures that are instances of known findings (none at present).
fn known(_c: &History, _msg: &str) -> Option<&'static str> {
    None
}

pub static EXHAUSTIVE: Driver<History> = Driver::new("C12", "exhaustive", check_history).with_known(known);
pub static RANDOM: Driver<History> = Driver::new("C12", "random", check_history).with_known(known);

// -------------------------------------------------------------------------------------------
// Exhaustive enumeration: unranking over the validity automaton
//
// Which selector values are meaningful depends only on, per pool pid, whether it is absent,
// held by a live unfinished job, or held by a live finished job. That is a 3^P-state automaton
// the enumerator can run without the code under test, so histories are enumerated without
// duplicates (each selector is the canonical raw value of its slot) and without rejections.

#[derive(Clone, Copy, Debug)]
enum AOp {
    /// `p` = pool index of the pid that slot `k` of `n` designates
    Add { k: usize, n: usize, p: usize, st: St, name: Option<u8> },
    Update { j: usize, n: usize, st: St },
    SetCur { j: usize, n: usize },
    Remove { j: usize, n: usize },
    RemoveIf(Pred),
    Report { j: usize, n: usize },
}

/// canonical raw selector for slot `k` of `n`: `pick_idx(raw(k, n), n) == k`
fn raw(k: usize, n: usize) -> u16 {
    ((k * 65536).div_ceil(n)) as u16
}

struct Alphabet {
    pids: usize,
    /// both names for every Add and the Report op; otherwise the name alternates with the step
    full: bool,
}

impl Alphabet {
    fn nstates(&self) -> usize {
        3usize.pow(self.pids as u32)
    }
    fn decode_state(&self, mut s: usize) -> Vec<u8> {
        (0..self.pids)
            .map(|_| {
                let d = (s % 3) as u8;
                s /= 3;
                d
            })
            .collect()
    }
    fn encode_state(&self, v: &[u8]) -> usize {
        v.iter().rev().fold(0, |a, d| a * 3 + *d as usize)
    }
    /// 0 = pid absent, 1 = live unfinished, 2 = live finished
    fn ops_in(&self, s: usize) -> Vec<(AOp, usize)> {
        let v = self.decode_state(s);
        let cands: Vec<usize> = (0..self.pids).filter(|p| v[*p] != 1).collect();
        let livep: Vec<usize> = (0..self.pids).filter(|p| v[*p] != 0).collect();
        let (c, l) = (cands.len(), livep.len());
        let with = |p: usize, d: u8| {
            let mut w = v.clone();
            w[p] = d;
            self.encode_state(&w)
        };
        let mut out = vec![];
        for k in 0..c {
            for st in [St::Run, St::Tstp] {
                if self.full {
                    for name in [0u8, 1] {
                        out.push((AOp::Add { k, n: c, p: cands[k], st, name: Some(name) }, with(cands[k], 1)));
                    }
                } else {
                    out.push((AOp::Add { k, n: c, p: cands[k], st, name: None }, with(cands[k], 1)));
                }
            }
        }
        for j in 0..l {
            for st in [St::Run, St::Tstp, St::Exit(0)] {
                out.push((AOp::Update { j, n: l, st }, with(livep[j], if st.finished() { 2 } else { 1 })));
            }
        }
        for j in 0..=l {
            out.push((AOp::SetCur { j, n: l + 1 }, s));
        }
        for j in 0..l {
            out.push((AOp::Remove { j, n: l + 1 }, with(livep[j], 0)));
        }
        let no_finished: Vec<u8> = v.iter().map(|d| if *d == 2 { 0 } else { *d }).collect();
        out.push((AOp::RemoveIf(Pred::Finished), self.encode_state(&no_finished)));
        out.push((AOp::RemoveIf(Pred::All), 0));
        if self.full {
            for j in 0..l {
                out.push((AOp::Report { j, n: l }, s));
            }
        }
        out
    }
}

struct Enumerator {
    alpha: Alphabet,
    ops: Vec<Vec<(AOp, usize)>>,
    /// counts[r][s] = number of valid histories of length r starting in automaton state s
    counts: Vec<Vec<u64>>,
}

impl Enumerator {
    fn new(alpha: Alphabet, depth: usize) -> Self {
        let ns = alpha.nstates();
        let ops: Vec<Vec<(AOp, usize)>> = (0..ns).map(|s| alpha.ops_in(s)).collect();
        let mut counts = vec![vec![1u64; ns]];
        for r in 1..=depth {
            let row: Vec<u64> = (0..ns).map(|s| ops[s].iter().map(|(_, t)| counts[r - 1][*t]).sum()).collect();
            counts.push(row);
        }
        Enumerator { alpha, ops, counts }
    }
    fn total(&self, depth: usize) -> u64 {
        self.counts[depth][0]
    }
    /// The `i`-th valid history of length `depth`. With `need_last_pid`, histories that never
    /// insert the last pid of the pool yield None (they are, call for call, histories of the next
    /// smaller pool).
    fn nth(&self, depth: usize, mut i: u64, need_last_pid: bool) -> Option<History> {
        let mut s = 0usize;
        let mut used_last = false;
        let mut ops = Vec::with_capacity(depth);
        for r in (1..=depth).rev() {
            let t = depth - r;
            let mut chosen = None;
            for (a, next) in &self.ops[s] {
                let c = self.counts[r - 1][*next];
                if i < c {
                    chosen = Some((*a, *next));
                    break;
                }
                i -= c;
            }
            let (a, next) = chosen.expect("index within total");
            ops.push(match a {
                AOp::Add { k, n, p, st, name } => {
                    used_last |= p + 1 == self.alpha.pids;
                    Op::Add {
                    pid: raw(k, n),
                    st,
                    jc: true,
                    name: name.unwrap_or(((t + k) % 2) as u8),
                    bg: t % 2 == 0,
                    }
                }
                AOp::Update { j, n, st } => Op::Update { job: raw(j, n), st },
                AOp::SetCur { j, n } => Op::SetCurrent { job: raw(j, n) },
                AOp::Remove { j, n } => Op::Remove { job: raw(j, n) },
                AOp::RemoveIf(pred) => Op::RemoveIf { pred },
                AOp::Report { j, n } => Op::Report { job: raw(j, n) },
            });
            s = next;
        }
        if need_last_pid && !used_last {
            return None;
        }
        Some(History { pids: self.alpha.pids as u8, ops })
    }
}

// -------------------------------------------------------------------------------------------
// Random histories

fn arb_st_new() -> impl Strategy<Value = St> {
    prop_oneof![3 => Just(St::Run), 2 => Just(St::Tstp), 1 => Just(St::Stop)]
}

fn arb_st() -> impl Strategy<Value = St> {
    prop_oneof![
        3 => Just(St::Run),
        3 => Just(St::Tstp),
        1 => Just(St::Stop),
        3 => (0u8..3).prop_map(St::Exit),
        1 => Just(St::Kill),
    ]
}

fn arb_pred() -> impl Strategy<Value = Pred> {
    prop_oneof![
        1 => Just(Pred::None),
        1 => Just(Pred::All),
        4 => Just(Pred::Finished),
        2 => Just(Pred::Stopped),
        2 => Just(Pred::Running),
        2 => Just(Pred::Unchanged),
        3 => Just(Pred::ReportAllRemoveFinished),
        2 => Just(Pred::OddIndex),
    ]
}

fn arb_op() -> impl Strategy<Value = Op> {
    prop_oneof![
        12 => (any::<u16>(), arb_st_new(), any::<bool>(), 0u8..4, any::<bool>())
            .prop_map(|(pid, st, jc, name, bg)| Op::Add { pid, st, jc, name, bg }),
        16 => (any::<u16>(), arb_st()).prop_map(|(job, st)| Op::Update { job, st }),
        1 => arb_st().prop_map(|st| Op::UpdateUnknown { st }),
        6 => any::<u16>().prop_map(|job| Op::SetCurrent { job }),
        6 => any::<u16>().prop_map(|job| Op::Remove { job }),
        3 => arb_pred().prop_map(|pred| Op::RemoveIf { pred }),
        3 => any::<u16>().prop_map(|job| Op::Report { job }),
        2 => (any::<u16>(), proptest::option::of(arb_st())).prop_map(|(job, st)| Op::Expect { job, st }),
        1 => Just(Op::DisownAll),
    ]
}

fn arb_history() -> impl Strategy<Value = History> {
    (1u8..=6, proptest::collection::vec(arb_op(), 0..=60)).prop_map(|(pids, ops)| History { pids, ops })
}

// -------------------------------------------------------------------------------------------

pub fn run(ctx: &Ctx, st: &mut Stats) {
    // exhaustive tier: (pool size, full alphabet?, lengths from..=to, only histories using the
    // last pid of the pool?). The configurations are disjoint sets of call sequences.
    let configs: Vec<(usize, bool, usize, usize, bool)> = ctx.tier.pick(
        vec![(3, true, 1, 5, false), (3, false, 6, 6, false), (4, false, 1, 5, true)],
        vec![(3, true, 1, 6, false), (3, false, 7, 7, false), (4, true, 1, 5, true), (4, false, 6, 6, true)],
    );
    states_begin(1);
    let mut space = vec![];
    'configs: for (pids, full, from, to, need_last) in configs {
        let en = Enumerator::new(Alphabet { pids, full }, to);
        let mut per_length = vec![];
        // increasing length, so that the first failure reported is a shortest one
        for d in from..=to {
            let total = en.total(d);
            per_length.push(total);
            EXHAUSTIVE.run_exhaustive(ctx, st, total, &|i| en.nth(d, i, need_last));
            if !st.failures.is_empty() {
                break 'configs;
            }
        }
        space.push(serde_json::json!({"pids": pids, "names": 2, "full_alphabet": full, "lengths": [from, to], "only_histories_using_last_pid": need_last, "valid_histories_per_length": per_length}));
    }
    st.exhaustive_drivers.dedup();
    st.extra.insert("states".into(), serde_json::json!(states_end()));
    st.extra.insert("exhaustive_space".into(), serde_json::json!(space));

    // random tier
    states_begin(2);
    let n = ctx.tier.pick(300_000, 15_000_000);
    RANDOM.run_random(ctx, st, n, arb_history);
    let n = states_end();
    st.extra.insert("states_random".into(), serde_json::json!({"distinct": n, "capped": n as usize >= RANDOM_STATES_CAP}));

    // end to end: job-control built-ins of a real shell on the simulated OS
    super::c12b::run(ctx, st);
}

pub fn replay(driver: &str, case: &serde_json::Value) -> Result<(Outcome, Option<&'static str>), String> {
    match driver {
        "exhaustive" => EXHAUSTIVE.replay_known(case),
        "random" => RANDOM.replay_known(case),
        "jobctl" => super::c12b::JOBCTL.replay_known(case),
        _ => Err(format!("unknown driver {driver}")),
    }
}

