//! C09 — redirections apply in order, last one command, leave no descriptor behind.
//!
//! A case is (initial `exec` redirections opening some of fds 3..9, noclobber, command kind,
//! 1-3 redirections, optional descriptor limit). `build` walks the script in execution order with
//! the reference model `model::fdtable` and produces the script text together with what must be
//! observed: the descriptor table at `snap before`, inside the command (`snap in`), at
//! `snap after` and at the end of the run, the `$?` seen after the command, every file's content,
//! stdout and stderr. The real shell then runs the script on the simulated OS.

use crate::engine::*;
use crate::model::fdtable::*;
use crate::vsys;
use proptest::prelude::*;
use serde::{Deserialize, Serialize};
use std::collections::{BTreeMap, BTreeSet};

pub const INFO: PropInfo = PropInfo {
    id: "C09",
    level: "fault_enumeration",
    rule: "cases = (initial table: `exec` redirections opening a subset of fds 3..9 for writing/reading/appending/read-write/as a copy of fd 1, plus fd 10 = the script file when the shell runs `yash FILE`; noclobber on/off; command kind: `:`, regular built-ins snap/echo/cat, function call, function defined with redirections, { }, ( ), if, for, while, case, last element of a pipeline, unknown external command, empty command, exec, command exec; 1-3 redirections over < > >> >| <> <& >& << <<- with explicit target 0-10 or default and operands existing file / new file / new file in a subdirectory / path through a regular file / missing file or directory / directory / descriptor number 0-11 / - / non-number / ${u?} / here-document text). Script: init; `snap before`; COMMAND; `snap after`; writes and reads through every open descriptor 3..9. Oracle = model::fdtable: table seen by the command (which fds < 10 are open, which share an open file description, which file, access mode), table after == table before (same descriptions, same close-on-exec flags) unless a successful exec, file contents byte for byte (truncate/append/offset sharing/here-document text), `$?`, command not run and diagnostic when redirection k fails, every fd >= 10 close-on-exec. Drivers: `single` = exhaustive over (kind x noclobber x 6 targets x every operator/operand pair) with one redirection; `list` = proptest lists of 1-3; `sweep` = proptest cases re-run under RLIMIT_NOFILE = 3..16 (set before start-up and by `ulimit -n` after the initial table exists), oracle reduced to the invariants (no panic, run finishes, table after == table before unless exec succeeded, `in` table as predicted when the command ran); `glob` = commands containing pathname expansion (directory scans). Non-trivial = a redirection succeeded before a later one failed, or a target fd was closed or open on something other than the start-up files, or the limit made an allocation fail (EMFILE/EBADF in stderr); distinct by serialised case.",
    assumptions: &[
        "POSIX.1-2024 XCU 2.7 and docs/src/language/redirections as reference; a redirection error makes the non-interactive shell exit for special built-ins and not for regular built-ins/external commands (XCU 2.8.1); for compound commands and functions both are accepted",
        "where the diagnostic of a failed redirection goes when an earlier redirection of the same command changed fd 2 is not specified: both files are treated as unknown",
        "unspecified and skipped: `>&N` / writes where N is a here-document descriptor (its writability is an implementation matter); copies that would not terminate (`cat <f >>f`)",
        "simulated OS deviations from POSIX that are not the shell's doing are not judged: O_CREAT creates missing parent directories (operand `nodir/x` with a creating operator gets the invariants-only oracle and a body that moves no data), symbolic links are not followed on open (none generated); EACCES cannot be produced (no permission checks on open)",
        "harness safety: `cat` is left out of the script (bodies then only write; the built-in `cat` kind is skipped and counted) when one file is both readable and writable through the redirection list, because a shell that mishandles such a list can make the copy endless and the simulated OS cannot interrupt it",
        "the simulated OS offers no non-regular writable file to `vsys::Setup` (its /dev/null is a regular file), so `noclobber allows an existing non-regular file` is not covered",
        "`command exec REDIRS` is expected to persist like `exec` (POSIX `command` rationale); a failing redirection there must not make the shell exit",
    ],
};

const F1_CONTENT: &str = "F1-old-content\n";
const F2_CONTENT: &str = "F2-line1\nF2-line2\n";
const SCRIPT_PATH: &str = "/work/script.sh";

#[derive(Clone, Copy, Debug, PartialEq, Eq, Hash, PartialOrd, Ord, Serialize, Deserialize)]
pub enum Kind {
    Colon,
    Snap,
    Echo,
    Cat,
    Func,
    FuncDef,
    Group,
    Subshell,
    If,
    For,
    While,
    Case,
    PipeIn,
    External,
    Empty,
    Exec,
    CommandExec,
    /// `command . ./dotf REDIRS`: the body is a sourced file, read through a descriptor the
    /// shell opens for its own use (moved to >= 10)
    Dot,
}

pub const ALL_KINDS: [Kind; 18] = [
    Kind::Colon,
    Kind::Snap,
    Kind::Echo,
    Kind::Cat,
    Kind::Func,
    Kind::FuncDef,
    Kind::Group,
    Kind::Subshell,
    Kind::If,
    Kind::For,
    Kind::While,
    Kind::Case,
    Kind::PipeIn,
    Kind::External,
    Kind::Empty,
    Kind::Exec,
    Kind::CommandExec,
    Kind::Dot,
];

impl Kind {
    fn label(self) -> &'static str {
        match self {
            Kind::Colon => "kind:special-builtin-colon",
            Kind::Snap => "kind:builtin-snap",
            Kind::Echo => "kind:builtin-echo",
            Kind::Cat => "kind:builtin-cat",
            Kind::Func => "kind:function-call",
            Kind::FuncDef => "kind:function-defined-with-redirs",
            Kind::Group => "kind:group",
            Kind::Subshell => "kind:subshell",
            Kind::If => "kind:if",
            Kind::For => "kind:for",
            Kind::While => "kind:while",
            Kind::Case => "kind:case",
            Kind::PipeIn => "kind:pipeline-last",
            Kind::External => "kind:external-not-found",
            Kind::Empty => "kind:empty-command",
            Kind::Exec => "kind:exec",
            Kind::CommandExec => "kind:command-exec",
            Kind::Dot => "kind:dot-script-via-command",
        }
    }
    /// the command runs a body with `snap in`
    fn has_body(self) -> bool {
        matches!(
            self,
            Kind::Func | Kind::FuncDef | Kind::Group | Kind::Subshell | Kind::If | Kind::For | Kind::While | Kind::Case | Kind::PipeIn | Kind::Dot
        )
    }
    fn has_probe(self) -> bool {
        self.has_body() || self == Kind::Snap
    }
    fn persists(self) -> bool {
        matches!(self, Kind::Exec | Kind::CommandExec)
    }
    /// XCU 2.8.1: redirection error with a special built-in => the non-interactive shell exits
    fn is_special(self) -> bool {
        matches!(self, Kind::Colon | Kind::Exec)
    }
    /// XCU 2.8.1: "shall not exit"
    fn must_continue(self) -> bool {
        matches!(self, Kind::Snap | Kind::Echo | Kind::Cat | Kind::External | Kind::Empty | Kind::CommandExec | Kind::PipeIn | Kind::Dot)
    }
}

#[derive(Clone, Copy, Debug, PartialEq, Eq, Hash, Serialize, Deserialize)]
pub enum InitMode {
    /// `exec N>iN`
    Write,
    /// `exec N<f2`
    Read,
    /// `exec N>>f1`
    Append,
    /// `exec N<>f2`
    ReadWrite,
    /// `exec N>&1`
    DupStdout,
}

#[derive(Clone, Copy, Debug, PartialEq, Eq, Hash, Serialize, Deserialize)]
pub struct InitFd {
    pub fd: u8,
    pub mode: InitMode,
}

#[derive(Clone, Copy, Debug, PartialEq, Eq, Hash, Serialize, Deserialize)]
pub struct Limit {
    pub n: u8,
    /// false: RLIMIT_NOFILE set before the shell starts; true: `ulimit -n N` after the initial
    /// table has been set up
    pub in_script: bool,
}

#[derive(Clone, Debug, PartialEq, Eq, Hash, Serialize, Deserialize)]
pub struct Case {
    pub init: Vec<InitFd>,
    pub noclobber: bool,
    /// run as `yash /work/script.sh` (the shell then holds the script on an internal fd >= 10)
    pub via_file: bool,
    pub kind: Kind,
    pub redirs: Vec<Redir>,
    /// simple commands: put the first redirection before the command name
    pub prefix: bool,
    /// bodies end with `st 3` instead of `st 0`
    pub fail_status: bool,
    pub limit: Option<Limit>,
}

// ---------------------------------------------------------------------------------------------
// Plan: script + expectations

#[derive(Clone, Debug, PartialEq, Eq)]
struct SnapFd {
    ofd: usize,
    cloexec: bool,
    readable: bool,
    writable: Option<bool>,
    file: FileId,
}

type TableSnap = BTreeMap<i32, SnapFd>;

fn snapshot(w: &World) -> TableSnap {
    w.table
        .iter()
        .map(|(fd, e)| {
            let o = &w.ofds[e.ofd];
            (*fd, SnapFd { ofd: e.ofd, cloexec: e.cloexec, readable: o.readable, writable: o.writable, file: o.file.clone() })
        })
        .collect()
}

#[derive(Clone, Debug, PartialEq, Eq)]
enum StatusExp {
    Exact(i32),
    NonZero,
}

#[derive(Clone, Debug)]
struct Plan {
    script: String,
    before: TableSnap,
    /// Some(table): `snap in` must have run exactly once with this table (fds < 10);
    /// None: it must not have run
    inn: Option<TableSnap>,
    /// None: the shell must have exited before `snap after`
    after: Option<TableSnap>,
    /// the shell may legitimately exit or go on after the failed redirection
    exit_optional: bool,
    status: StatusExp,
    fin: TableSnap,
    /// expected final content of the named files (None = must not exist); unknown ones left out
    files: BTreeMap<String, Option<Vec<u8>>>,
    stdout: Option<Vec<u8>>,
    stderr_exact: Option<Vec<u8>>,
    stderr_nonempty: bool,
    failed_at: Option<(usize, &'static str)>,
    applied: usize,
    /// simulator deviation: only the invariants are checked
    uncertain: Option<&'static str>,
    /// table the command would leave if it is `exec` and every redirection succeeds (fds < 10)
    persisted: Option<TableSnap>,
}

const NAMES: [&str; 12] = ["f1", "f2", "n1", "n2", "d/n3", "i3", "i4", "i5", "i6", "i7", "i8", "i9"];

fn dup_out(fd: i32) -> Redir {
    Redir { fd: None, op: Op::DupOut, operand: Operand::Fd(fd as u8) }
}
fn dup_in(fd: i32) -> Redir {
    Redir { fd: None, op: Op::DupIn, operand: Operand::Fd(fd as u8) }
}

#[derive(Clone, Copy, Debug)]
enum Touch {
    Write(i32),
    Read(i32),
}

/// Commands that push data through descriptor `fd` (3..9) according to what it is open for.
fn touch_for(w: &World, fd: i32) -> Option<Touch> {
    let e = w.table.get(&fd)?;
    if e.cloexec {
        return None;
    }
    let o = &w.ofds[e.ofd];
    if o.writable == Some(true) {
        Some(Touch::Write(fd))
    } else if o.readable {
        Some(Touch::Read(fd))
    } else {
        None
    }
}

fn touch_text(t: Touch, tag: &str) -> String {
    match t {
        Touch::Write(fd) => format!("echo {tag}{fd} >&{fd}"),
        Touch::Read(fd) => format!("cat <&{fd}"),
    }
}

fn touch_run(w: &mut World, t: Touch, tag: &str) -> Result<(), &'static str> {
    let (res, v) = match t {
        Touch::Write(fd) => w.with_redirs(&[dup_out(fd)], |w| w.echo(&format!("{tag}{fd}"))),
        Touch::Read(fd) => w.with_redirs(&[dup_in(fd)], |w| w.cat()),
    };
    if !res.all_ok() {
        return Err("internal: an auxiliary redirection of the script is not applicable");
    }
    v.unwrap().map(|_| ())
}

/// Harness safety, not part of the oracle: `cat` on the simulated OS cannot be interrupted, and a
/// shell that gets a redirection wrong (accepts one it must refuse, forgets to truncate) can turn
/// a terminating copy into an endless one when a file is both readable and writable through the
/// command's redirections. Such lists are not used with commands that copy data, whatever the
/// model predicts for them.
fn may_copy_file_onto_itself(c: &Case) -> bool {
    let init_file = |fd: u8| -> Option<(String, bool, bool)> {
        c.init.iter().find(|i| i.fd == fd).map(|i| match i.mode {
            InitMode::Write => (format!("i{fd}"), false, true),
            InitMode::Read => ("f2".to_string(), true, false),
            InitMode::Append => ("f1".to_string(), false, true),
            InitMode::ReadWrite => ("f2".to_string(), true, true),
            InitMode::DupStdout => ("<stdout>".to_string(), true, true),
        })
    };
    // every separate open of a file that the command (or, after exec, the rest of the script) can
    // reach: (file, readable, writable). One open alone cannot feed itself: reading moves its
    // offset to the end before anything is written.
    let mut opens: Vec<(String, bool, bool)> = vec![];
    let mut init_seen = BTreeSet::new();
    let mut add_init = |fd: u8, opens: &mut Vec<(String, bool, bool)>| {
        if let Some(o) = init_file(fd) {
            if init_seen.insert(fd) {
                opens.push(o);
            }
        }
    };
    for r in &c.redirs {
        match &r.operand {
            Operand::Path(p) => opens.push((p.file_name().to_string(), matches!(r.op, Op::In | Op::InOut), r.op != Op::In)),
            Operand::Fd(n) => add_init(*n, &mut opens),
            _ => {}
        }
        if let Some(fd) = r.fd {
            add_init(fd, &mut opens); // the body also reads/writes through the target descriptors
        }
    }
    if c.kind.persists() {
        // after `exec` the script reads through every readable descriptor of the initial table
        for i in &c.init {
            add_init(i.fd, &mut opens);
        }
    }
    opens.iter().enumerate().any(|(i, a)| opens.iter().enumerate().any(|(j, b)| i != j && a.0 == b.0 && a.1 && b.2))
}

fn build(c: &Case) -> Result<Plan, &'static str> {
    if c.kind == Kind::Empty && c.redirs.is_empty() {
        return Err("generator: empty command without redirections");
    }
    for r in &c.redirs {
        if !r.well_formed() {
            return Err("generator: ill-formed redirection");
        }
        if r.target() >= 10 && !c.via_file {
            return Err("generator: target fd >= 10 without an internal descriptor there");
        }
    }
    let copy_safe = !may_copy_file_onto_itself(c);
    if c.kind == Kind::Cat && !copy_safe {
        return Err("cat with the same file among its possible inputs and outputs (a wrong shell could copy forever)");
    }
    let mut w = World::new(&[("f1", F1_CONTENT), ("f2", F2_CONTENT)]);
    if c.via_file {
        w.add_script_fd(10, "");
    }
    let mut head = String::from("v=VAL\n");
    let mut main = String::new();

    // initial table
    let mut seen = BTreeSet::new();
    for i in &c.init {
        if !(3..=9).contains(&i.fd) || !seen.insert(i.fd) {
            return Err("generator: bad initial descriptor");
        }
        let fd = i.fd as i32;
        let (text, ofd) = match i.mode {
            InitMode::Write => {
                let name = format!("i{fd}");
                w.files.insert(FileId::Named(name.clone()), vec![]);
                (format!("exec {fd}>{name}"), w.new_ofd(FileId::Named(name), false, Some(true), false))
            }
            InitMode::Read => (format!("exec {fd}<f2"), w.new_ofd(FileId::Named("f2".into()), true, Some(false), false)),
            InitMode::Append => (format!("exec {fd}>>f1"), w.new_ofd(FileId::Named("f1".into()), false, Some(true), true)),
            InitMode::ReadWrite => (format!("exec {fd}<>f2"), w.new_ofd(FileId::Named("f2".into()), true, Some(true), false)),
            InitMode::DupStdout => (format!("exec {fd}>&1"), w.table[&1].ofd),
        };
        w.table.insert(fd, Entry { ofd, cloexec: false });
        main.push_str(&text);
        main.push('\n');
    }
    if c.noclobber {
        main.push_str("set -C\n");
        w.noclobber = true;
    }
    // move the offsets of the writable ones away from 0
    for i in &c.init {
        if let Some(t @ Touch::Write(_)) = touch_for(&w, i.fd as i32) {
            main.push_str(&touch_text(t, "a"));
            main.push('\n');
            touch_run(&mut w, t, "a")?;
        }
    }
    if let Some(Limit { n, in_script: true }) = c.limit {
        main.push_str(&format!("ulimit -n {n}\n"));
    }
    main.push_str("snap before\n");
    let before = snapshot(&w);

    // the command
    let saved = w.table.clone();
    if c.kind == Kind::PipeIn {
        w.attach_pipe_stdin("P\n");
    }
    let res = w.apply_list(&c.redirs);
    if let Some(why) = res.unspec {
        return Err(why);
    }
    let ok = res.all_ok();
    let mut touches: Vec<Touch> = vec![];
    if ok && c.kind.has_body() {
        let mut fds = BTreeSet::new();
        for r in &c.redirs {
            fds.insert(r.target());
            if let Operand::Fd(n) = r.operand {
                fds.insert(n as i32);
            }
        }
        for fd in fds {
            if (3..=9).contains(&fd) {
                if let Some(t) = touch_for(&w, fd) {
                    if copy_safe || matches!(t, Touch::Write(_)) {
                        touches.push(t);
                    }
                }
            }
        }
    }
    let st = if c.fail_status { 3 } else { 0 };
    // Where the model cannot follow the simulated OS (res.uncertain) it cannot prove either that
    // copying data terminates (`cat <f >>f` never does), so such commands move no data.
    if res.uncertain.is_some() && c.kind == Kind::Cat {
        return Err("simulator deviation under a data-copying command: termination not provable");
    }
    let mut body = String::from(if res.uncertain.is_some() {
        "snap in"
    } else if copy_safe {
        "snap in; echo W; cat"
    } else {
        "snap in; echo W"
    });
    for t in &touches {
        body.push_str("; ");
        body.push_str(&touch_text(*t, "w"));
    }
    body.push_str(&format!("; st {st}"));

    let rtexts: Vec<String> = c.redirs.iter().enumerate().map(|(i, r)| r.render(i)).collect();
    let all = rtexts.join(" ");
    let heres: String = c.redirs.iter().enumerate().filter_map(|(i, r)| r.here_script_text(i)).collect();
    let simple = |words: &str| -> String {
        if c.prefix && !rtexts.is_empty() {
            let rest = rtexts[1..].join(" ");
            format!("{} {words} {rest}", rtexts[0]).trim_end().to_string()
        } else {
            format!("{words} {all}").trim().to_string()
        }
    };
    let line = match c.kind {
        Kind::Colon => simple(":"),
        Kind::Snap => simple("snap in"),
        Kind::Echo => simple("echo W"),
        Kind::Cat => simple("cat"),
        Kind::External => simple("nosuch"),
        Kind::Exec => simple("exec"),
        Kind::CommandExec => simple("command exec"),
        Kind::Empty => all.clone(),
        Kind::Func => {
            head.push_str(&format!("fbody() {{ {body}; }}\n"));
            simple("fbody")
        }
        Kind::FuncDef => {
            head.push_str(&format!("fredir() {{ {body}; }} {all}\n{heres}"));
            "fredir".to_string()
        }
        Kind::Dot => {
            head.push_str(&format!("cat >dotf <<'DOTEOF'\n{body}\nDOTEOF\n"));
            simple("command . ./dotf")
        }
        Kind::Group => format!("{{ {body}; }} {all}"),
        Kind::Subshell => format!("( {body} ) {all}"),
        Kind::If => format!("if st 0; then {body}; fi {all}"),
        Kind::For => format!("for i in 1; do {body}; done {all}"),
        Kind::While => format!("while cnt a 1; do {body}; done {all}"),
        Kind::Case => format!("case x in x) {body};; esac {all}"),
        Kind::PipeIn => format!("echo P | {{ {body}; }} {all}"),
    };
    main.push_str(line.trim_end());
    main.push('\n');
    if c.kind != Kind::FuncDef {
        main.push_str(&heres);
    }

    let mut inn: Option<TableSnap> = None;
    let mut status = StatusExp::Exact(0);
    let mut shell_exits = false;
    let mut persisted = None;
    if ok {
        match c.kind {
            Kind::Colon | Kind::Empty => {}
            Kind::Snap => inn = Some(snapshot(&w)),
            Kind::Echo => {
                if !w.echo("W")? {
                    status = StatusExp::NonZero;
                }
            }
            Kind::Cat => {
                if !w.cat()? {
                    status = StatusExp::NonZero;
                }
            }
            Kind::External => {
                w.diag();
                status = StatusExp::Exact(127);
            }
            Kind::Exec | Kind::CommandExec => persisted = Some(snapshot(&w)),
            _ => {
                inn = Some(snapshot(&w));
                w.echo("W")?;
                if copy_safe {
                    w.cat()?;
                }
                for t in &touches {
                    touch_run(&mut w, *t, "w")?;
                }
                status = StatusExp::Exact(st);
            }
        }
        if !c.kind.persists() {
            w.table = saved.clone();
        }
    } else if res.failed_at.is_some() {
        w.diag_redirection_failure(&saved); // restores the table
        status = StatusExp::NonZero;
        shell_exits = c.kind.is_special();
    } else {
        // uncertain: the model stops predicting; the table is restored unless exec succeeded
        w.table = saved.clone();
    }
    let uncertain = res.uncertain;

    let mut after = None;
    if !shell_exits {
        main.push_str("snap after\n");
        after = Some(snapshot(&w));
        if !(uncertain.is_some() && c.kind.persists()) {
            for fd in 3..=9 {
                if let Some(t) = touch_for(&w, fd) {
                    if c.kind.persists() && !copy_safe && matches!(t, Touch::Read(_)) {
                        continue;
                    }
                    main.push_str(&touch_text(t, "p"));
                    main.push('\n');
                    touch_run(&mut w, t, "p")?;
                }
            }
        }
    } else {
        // text after the aborting command is never executed, but keep the script shape
        main.push_str("snap after\n");
    }
    let fin = snapshot(&w);

    let mut files = BTreeMap::new();
    for name in NAMES {
        let id = FileId::Named(name.to_string());
        if !w.tainted.contains(&id) {
            files.insert(name.to_string(), w.files.get(&id).cloned());
        }
    }
    let stdout = if w.tainted.contains(&FileId::Std(1)) { None } else { Some(w.files[&FileId::Std(1)].clone()) };
    let stderr_exact = if w.diags == 0 && !w.tainted.contains(&FileId::Std(2)) && c.kind != Kind::PipeIn {
        Some(w.files[&FileId::Std(2)].clone())
    } else {
        None
    };
    Ok(Plan {
        script: format!("{head}{main}"),
        before,
        inn,
        after,
        exit_optional: res.failed_at.is_some() && !c.kind.is_special() && !c.kind.must_continue(),
        status,
        fin,
        files,
        stdout,
        stderr_exact,
        stderr_nonempty: w.diags_on_stderr > 0,
        failed_at: res.failed_at,
        applied: res.applied,
        uncertain,
        persisted,
    })
}

// ---------------------------------------------------------------------------------------------
// Comparison with the run

#[derive(Clone, Debug)]
struct Problem {
    /// signature of "a saved copy (fd >= 10, close-on-exec, same description as a descriptor of
    /// the `before` table) was left open"
    leak_saved: bool,
    /// signature of "a descriptor on a directory was left open"
    leak_dir: bool,
    text: String,
}

struct Checker<'a> {
    r: &'a vsys::RunResult,
    /// model description index -> identity in the run
    ofd_map: BTreeMap<usize, usize>,
    before_ptrs: BTreeSet<usize>,
    named_inodes: BTreeMap<String, usize>,
    dir_inodes: BTreeSet<usize>,
    /// the model predicts a failing redirection, or (under a descriptor limit) one was reported
    redirection_failed: bool,
    problems: Vec<Problem>,
}

fn inode_ptr(r: &vsys::RunResult, path: &str) -> Option<usize> {
    let st = r.state.borrow();
    let inode = st.file_system.get(path).ok()?;
    Some(std::rc::Rc::as_ptr(&inode) as *const () as usize)
}

impl<'a> Checker<'a> {
    fn new(r: &'a vsys::RunResult) -> Self {
        let mut named_inodes = BTreeMap::new();
        for name in NAMES {
            if let Some(p) = inode_ptr(r, &format!("/work/{name}")) {
                named_inodes.insert(name.to_string(), p);
            }
        }
        for (name, path) in [("<stdin>", "/dev/stdin"), ("<stdout>", "/dev/stdout"), ("<stderr>", "/dev/stderr"), ("<script>", SCRIPT_PATH)] {
            if let Some(p) = inode_ptr(r, path) {
                named_inodes.insert(name.to_string(), p);
            }
        }
        let mut dir_inodes = BTreeSet::new();
        for d in ["/work", "/work/d", "/"] {
            if let Some(p) = inode_ptr(r, d) {
                dir_inodes.insert(p);
            }
        }
        Checker { r, ofd_map: BTreeMap::new(), before_ptrs: BTreeSet::new(), named_inodes, dir_inodes, redirection_failed: false, problems: vec![] }
    }

    fn problem(&mut self, text: String) {
        self.problems.push(Problem { leak_saved: false, leak_dir: false, text });
    }

    fn expected_inode(&self, f: &FileId) -> Option<Option<usize>> {
        // Some(Some(p)): must be p; Some(None): must be none of the named files; None: no statement
        match f {
            FileId::Std(0) => self.named_inodes.get("<stdin>").map(|p| Some(*p)),
            FileId::Std(1) => self.named_inodes.get("<stdout>").map(|p| Some(*p)),
            FileId::Std(_) => self.named_inodes.get("<stderr>").map(|p| Some(*p)),
            FileId::Named(n) => self.named_inodes.get(n).map(|p| Some(*p)),
            FileId::Script => self.named_inodes.get("<script>").map(|p| Some(*p)),
            FileId::Dir => inode_ptr(self.r, "/work/d").map(Some),
            FileId::Here(_) | FileId::Pipe(_) => Some(None),
        }
    }

    fn extra_fd(&mut self, tag: &str, fd: i32, a: &vsys::FdInfo) {
        // a saved copy: the shell's own (>= 10, close-on-exec), left behind by a command whose
        // redirection failed; it holds a description of the `before` table or one opened by an
        // earlier redirection of the same command
        let leak_saved = fd >= 10 && a.cloexec && (self.before_ptrs.contains(&a.ofd) || self.redirection_failed);
        let leak_dir = !leak_saved && !a.cloexec && self.dir_inodes.contains(&a.inode);
        let what = if leak_saved {
            " (a close-on-exec copy of a description of the `before` table: a saved copy that was not closed)"
        } else if leak_dir {
            " (open on a directory)"
        } else {
            ""
        };
        self.problems.push(Problem {
            leak_saved,
            leak_dir,
            text: format!("{tag}: descriptor {fd} is open but should not be{what} [{}]", show_fd(a)),
        });
    }

    /// Compares an observed table with the model's. `below10`: only descriptors < 10 are compared
    /// (the shell may hold saved copies >= 10, which must be close-on-exec).
    fn compare(&mut self, tag: &str, exp: &TableSnap, act: &vsys::ProcInfo, below10: bool, script_fd_optional: bool) {
        for (fd, e) in exp {
            if below10 && *fd >= 10 {
                continue;
            }
            let Some(a) = act.fds.get(fd) else {
                if !(script_fd_optional && e.file == FileId::Script) {
                    self.problem(format!("{tag}: descriptor {fd} should be open ({}) but is closed", show_exp(e)));
                }
                continue;
            };
            if a.cloexec != e.cloexec {
                self.problem(format!("{tag}: descriptor {fd} close-on-exec is {}, expected {}", a.cloexec, e.cloexec));
            }
            if a.readable != e.readable || e.writable.is_some_and(|w| w != a.writable) {
                self.problem(format!("{tag}: descriptor {fd} is open [{}], expected {}", show_fd(a), show_exp(e)));
            }
            match self.ofd_map.get(&e.ofd) {
                Some(p) if *p != a.ofd => {
                    self.problem(format!(
                        "{tag}: descriptor {fd} does not refer to the open file description the model says ({}); it was replaced or re-opened",
                        show_exp(e)
                    ));
                }
                Some(_) => {}
                None => {
                    self.ofd_map.insert(e.ofd, a.ofd);
                }
            }
            match self.expected_inode(&e.file) {
                Some(Some(p)) if p != a.inode => {
                    self.problem(format!("{tag}: descriptor {fd} is not connected to {:?}", e.file));
                }
                Some(None) if self.named_inodes.values().any(|p| *p == a.inode) => {
                    self.problem(format!("{tag}: descriptor {fd} should be on anonymous storage ({:?}) but is on a named file", e.file));
                }
                _ => {}
            }
        }
        // distinct descriptions in the model must be distinct in the run
        let present: Vec<(&i32, &SnapFd)> = exp.iter().filter(|(fd, _)| act.fds.contains_key(fd) && !(below10 && **fd >= 10)).collect();
        for (i, (fa, ea)) in present.iter().enumerate() {
            for (fb, eb) in &present[i + 1..] {
                let same_act = act.fds[fa].ofd == act.fds[fb].ofd;
                if (ea.ofd == eb.ofd) != same_act {
                    self.problem(format!(
                        "{tag}: descriptors {fa} and {fb} {} an open file description, the model says they {}",
                        if same_act { "share" } else { "do not share" },
                        if ea.ofd == eb.ofd { "do" } else { "do not" }
                    ));
                }
            }
        }
        for (fd, a) in &act.fds {
            if exp.contains_key(fd) {
                continue;
            }
            if below10 && *fd >= 10 {
                if !a.cloexec {
                    self.problem(format!("{tag}: descriptor {fd} (>= 10, the shell's own) is not close-on-exec"));
                }
                continue;
            }
            self.extra_fd(tag, *fd, a);
        }
    }

    /// Observed table against observed table (invariant-only oracle).
    fn same_table(&mut self, tag: &str, b: &vsys::ProcInfo, a: &vsys::ProcInfo, only_ge10: bool, script_fd_optional: bool) {
        let script = self.named_inodes.get("<script>").copied();
        for (fd, x) in &b.fds {
            if only_ge10 && *fd < 10 {
                continue;
            }
            match a.fds.get(fd) {
                None => {
                    if !(script_fd_optional && Some(x.inode) == script && *fd >= 10) {
                        self.problem(format!("{tag}: descriptor {fd} was open before the command [{}] and is closed now", show_fd(x)));
                    }
                }
                Some(y) if y != x => {
                    self.problem(format!("{tag}: descriptor {fd} was [{}] before the command and is [{}] now{}", show_fd(x), show_fd(y), if x.ofd != y.ofd { " (another open file description)" } else { "" }));
                }
                _ => {}
            }
        }
        for (fd, y) in &a.fds {
            if only_ge10 && *fd < 10 {
                continue;
            }
            if !b.fds.contains_key(fd) {
                self.extra_fd(tag, *fd, y);
            }
        }
    }

    fn all_ge10_cloexec(&mut self, tag: &str, act: &vsys::ProcInfo) {
        for (fd, a) in &act.fds {
            if *fd >= 10 && !a.cloexec {
                self.problem(format!("{tag}: descriptor {fd} (>= 10) is not close-on-exec"));
            }
        }
    }
}

fn show_fd(a: &vsys::FdInfo) -> String {
    format!("{}{}{}", if a.readable { "r" } else { "" }, if a.writable { "w" } else { "" }, if a.cloexec { ",cloexec" } else { "" })
}

fn show_exp(e: &SnapFd) -> String {
    format!(
        "{:?} {}{}{}",
        e.file,
        if e.readable { "r" } else { "" },
        match e.writable {
            Some(true) => "w",
            Some(false) => "",
            None => "(w?)",
        },
        if e.cloexec { ",cloexec" } else { "" }
    )
}

fn show_bytes(b: &[u8]) -> String {
    format!("{:?}", String::from_utf8_lossy(b))
}

#[derive(Clone, Debug, Default)]
struct Report {
    skip: Option<&'static str>,
    problems: Vec<Problem>,
    classes: Vec<&'static str>,
    nontrivial: bool,
    limit_hit: bool,
    script: String,
}

const FAIL_AT: [&str; 3] = ["fail@1", "fail@2", "fail@3"];

fn make_setup(c: &Case, script: &str) -> vsys::Setup {
    let mut setup = vsys::Setup::script(script);
    setup.files.push(("f1".into(), vsys::FileSpec::Regular { content: F1_CONTENT.into(), mode: 0o644, exec: false }));
    setup.files.push(("f2".into(), vsys::FileSpec::Regular { content: F2_CONTENT.into(), mode: 0o644, exec: false }));
    setup.files.push(("d".into(), vsys::FileSpec::Dir { mode: 0o755 }));
    setup.files.push(("l1".into(), vsys::FileSpec::Symlink { target: "f1".into() }));
    setup.files.push(("l2".into(), vsys::FileSpec::Symlink { target: "n2".into() }));
    setup.files.push(("ld".into(), vsys::FileSpec::Symlink { target: "d".into() }));
    if c.via_file {
        setup.files.push((SCRIPT_PATH.into(), vsys::FileSpec::Regular { content: script.into(), mode: 0o644, exec: false }));
        setup.argv = vec!["yash".into(), SCRIPT_PATH.into()];
    }
    if let Some(Limit { n, in_script: false }) = c.limit {
        setup.nofile = Some(n as u64);
    }
    setup
}

fn find_snap<'r>(r: &'r vsys::RunResult, tag: &str) -> Vec<&'r vsys::ProcInfo> {
    r.proc_snaps.iter().filter(|(t, _)| t == tag).map(|(_, p)| p).collect()
}

fn snap_status(r: &vsys::RunResult, tag: &str) -> Option<i32> {
    r.snaps.iter().find(|s| s.tag == tag).map(|s| s.status)
}

fn check_case(c: &Case) -> Report {
    let mut rep = Report::default();
    let plan = match build(c) {
        Ok(p) => p,
        Err(why) => {
            rep.skip = Some(why);
            return rep;
        }
    };
    rep.script = plan.script.clone();
    let r = vsys::run(&make_setup(c, &plan.script));
    let mut ck = Checker::new(&r);
    // debugging aid: C09_SHOW=1 vcheck C09 replay FILE prints the script and the expectations
    if std::env::var("C09_SHOW").is_ok() {
        eprintln!("--- script\n{}--- plan: failed_at={:?} uncertain={:?} status={:?} after={} inn={:?}\n--- files {:?}\n--- stdout exp {:?}\n--- stdout got {:?}\n--- stderr got {:?}\n--- in snaps {:?}", plan.script, plan.failed_at, plan.uncertain, plan.status, plan.after.is_some(), plan.inn.as_ref().map(|t| t.iter().map(|(fd, e)| format!("{fd}:{}", show_exp(e))).collect::<Vec<_>>()), plan.files.iter().map(|(k, v)| (k.clone(), v.as_ref().map(|b| String::from_utf8_lossy(b).into_owned()))).collect::<Vec<_>>(), plan.stdout.as_ref().map(|b| String::from_utf8_lossy(b).into_owned()), r.stdout, r.stderr, find_snap(&r, "in").iter().map(|p| p.fds.iter().map(|(fd, a)| format!("{fd}:{}", show_fd(a))).collect::<Vec<_>>()).collect::<Vec<_>>());
    }
    if let Some(p) = &r.panic {
        ck.problem(format!("panic: {p}"));
        rep.problems = ck.problems;
        return rep;
    }
    if !r.finished {
        ck.problem(format!("the shell did not finish (deadlock={} step limit={})", r.log.deadlock, r.log.step_limit_hit));
        rep.problems = ck.problems;
        return rep;
    }
    let limited = c.limit.is_some();
    let invariant_only = limited || plan.uncertain.is_some();
    // under a limit or a simulator deviation a failure cannot be ruled out (stderr may be redirected)
    ck.redirection_failed = plan.failed_at.is_some() || invariant_only;
    rep.limit_hit = limited && (r.stderr.contains("Too many open files") || r.stderr.contains("Bad file descriptor"));
    let Some(final_proc) = r.procs.iter().find(|p| p.pid == r.main_pid) else {
        ck.problem("the main shell process is gone at the end of the run".into());
        rep.problems = ck.problems;
        return rep;
    };
    for (tag, p) in &r.proc_snaps {
        ck.all_ge10_cloexec(&format!("snap {tag}"), p);
    }
    ck.all_ge10_cloexec("end of run", final_proc);

    let befores = find_snap(&r, "before");
    let afters = find_snap(&r, "after");
    let ins = find_snap(&r, "in");
    if befores.len() != 1 {
        if limited {
            // the limit stopped the shell while it was setting up the initial table
            rep.classes.push("limit:shell-stopped-before-the-command");
            rep.problems = ck.problems;
            return rep;
        }
        ck.problem(format!("`snap before` ran {} times; status {} stderr {:?}", befores.len(), r.status, r.stderr));
        rep.problems = ck.problems;
        return rep;
    }
    let b = befores[0];
    ck.before_ptrs = b.fds.values().map(|f| f.ofd).collect();
    ck.compare("before", &plan.before, b, false, false);
    if !ck.problems.is_empty() {
        // the initial table is already wrong (exec did not persist, ...): everything else follows
        rep.problems = ck.problems;
        return rep;
    }

    // ---- the table seen by the command
    if c.kind.has_probe() {
        match (&plan.inn, ins.len()) {
            (Some(exp), 1) => {
                if !(invariant_only && plan.uncertain.is_some()) {
                    ck.compare("in", exp, ins[0], true, false);
                }
            }
            (Some(_), 0) if invariant_only => {} // the limit (or the simulator) made a redirection fail
            (Some(_), n) => ck.problem(format!("the command should have run once, `snap in` ran {n} times; stderr {:?}", r.stderr)),
            (None, 0) => {}
            (None, n) => {
                if plan.failed_at.is_some() {
                    let (k, why) = plan.failed_at.unwrap();
                    ck.problem(format!("redirection {} must fail ({why}) but the command ran ({n} `snap in`)", k + 1));
                } else if plan.uncertain.is_none() {
                    ck.problem(format!("`snap in` ran {n} times, expected none"));
                }
            }
        }
    }

    // ---- after the command
    let persisted_ok = |status: Option<i32>| -> bool { c.kind.persists() && status == Some(0) };
    let after_status = snap_status(&r, "after");
    if !invariant_only {
        match (&plan.after, afters.len()) {
            (Some(exp), 1) => {
                ck.compare("after", exp, afters[0], false, false);
                let got = after_status.unwrap_or(-1);
                let ok = match plan.status {
                    StatusExp::Exact(n) => got == n,
                    StatusExp::NonZero => got != 0,
                };
                if !ok {
                    ck.problem(format!("`$?` after the command is {got}, expected {:?}", plan.status));
                }
            }
            (Some(_), 0) if plan.exit_optional => {}
            (Some(_), n) => ck.problem(format!(
                "`snap after` ran {n} times, expected once ({}); status {} stderr {:?}",
                if plan.failed_at.is_some() { "a redirection error must not make the shell exit here" } else { "nothing should stop the shell" },
                r.status,
                r.stderr
            )),
            (None, 0) => {
                if r.status == 0 {
                    ck.problem("the shell exited because of a redirection error on a special built-in, but with status 0".into());
                }
            }
            (None, _) => ck.problem("a redirection error on a special built-in must make the non-interactive shell exit, but it went on".into()),
        }
        if afters.len() == 1 || plan.after.is_none() {
            ck.compare("end of run", &plan.fin, final_proc, false, true);
        } else {
            // the shell exited after a failed redirection on a compound command / function
            ck.same_table("end of run (shell exited)", b, final_proc, false, true);
        }
    } else {
        if afters.len() > 1 {
            ck.problem(format!("`snap after` ran {} times", afters.len()));
        }
        if let Some(a) = afters.first() {
            if persisted_ok(after_status) {
                ck.same_table("after (exec succeeded)", b, a, true, false);
                if let (Some(p), None) = (&plan.persisted, plan.uncertain) {
                    ck.compare("after (exec succeeded)", p, a, true, false);
                } else if plan.failed_at.is_some() {
                    let (k, why) = plan.failed_at.unwrap();
                    ck.problem(format!("redirection {} of exec must fail ({why}) but exec returned 0", k + 1));
                }
            } else {
                ck.same_table("after", b, a, false, false);
            }
            if plan.failed_at.is_some() && after_status == Some(0) {
                ck.problem("a redirection that must fail left `$?` = 0".into());
            }
        }
        if persisted_ok(after_status) {
            ck.same_table("end of run (exec succeeded)", b, final_proc, true, true);
            if let (Some(_), None) = (&plan.persisted, plan.uncertain) {
                // descriptors < 10 were already compared at `after`; the auxiliary commands that
                // follow restore the table themselves
                if let Some(a) = afters.first() {
                    let mut a10 = (*a).clone();
                    a10.fds.retain(|fd, _| *fd < 10);
                    let mut f10 = final_proc.clone();
                    f10.fds.retain(|fd, _| *fd < 10);
                    ck.same_table("end of run (exec succeeded)", &a10, &f10, false, false);
                }
            }
        } else {
            ck.same_table("end of run", b, final_proc, false, true);
        }
    }

    // ---- data
    if !invariant_only {
        for (name, exp) in &plan.files {
            let got = r.file(&format!("/work/{name}"));
            if &got != exp {
                ck.problem(format!(
                    "file {name}: content is {}, expected {}",
                    got.as_deref().map_or("<no such file>".into(), show_bytes),
                    exp.as_deref().map_or("<no such file>".into(), show_bytes)
                ));
            }
        }
        if let Some(exp) = &plan.stdout {
            if r.stdout.as_bytes() != exp.as_slice() {
                ck.problem(format!("stdout is {:?}, expected {}", r.stdout, show_bytes(exp)));
            }
        }
        if let Some(exp) = &plan.stderr_exact {
            if r.stderr.as_bytes() != exp.as_slice() {
                ck.problem(format!("stderr is {:?}, expected {}", r.stderr, show_bytes(exp)));
            }
        }
        if plan.stderr_nonempty && r.stderr.is_empty() {
            ck.problem("a diagnostic was due on standard error, but it is empty".into());
        }
    }

    // ---- classes
    rep.classes.push(c.kind.label());
    for r in &c.redirs {
        rep.classes.push(r.op.label());
    }
    if let Some((k, why)) = plan.failed_at {
        rep.classes.push(FAIL_AT[k.min(2)]);
        rep.classes.push(why);
        if plan.applied > 0 {
            rep.classes.push("failure-after-successful-redirection");
        }
    } else if plan.uncertain.is_some() {
        rep.classes.push("invariants-only:simulator-deviation");
    } else {
        rep.classes.push("all-redirections-succeed");
        if c.kind.persists() {
            rep.classes.push("exec-persist");
        }
    }
    if c.redirs.iter().any(|r| r.op.is_here()) {
        rep.classes.push("here-doc");
    }
    let mut targets = BTreeSet::new();
    let mut same_target_twice = false;
    for r in &c.redirs {
        same_target_twice |= !targets.insert(r.target());
    }
    if same_target_twice {
        rep.classes.push("same-target-twice");
    }
    let unusual_target = c.redirs.iter().any(|r| {
        let t = r.target();
        match plan.before.get(&t) {
            None => true,
            Some(e) => !matches!(e.file, FileId::Std(n) if n as i32 == t),
        }
    });
    if unusual_target {
        rep.classes.push("target-closed-or-open-elsewhere");
    }
    if c.noclobber {
        rep.classes.push("noclobber-on");
    }
    if c.via_file {
        rep.classes.push("script-on-internal-fd");
    }
    if rep.limit_hit {
        rep.classes.push("limit-hit");
    }
    rep.nontrivial = (plan.failed_at.is_some() && plan.applied > 0) || unusual_target || rep.limit_hit;
    rep.problems = ck.problems;
    rep
}

const TAG_LEAK_SAVED: &str = "[saved-fd-leak]";
const TAG_LEAK_DIR: &str = "[opendir-leak]";

fn problems_message(problems: &[Problem], script: &str, extra: &str) -> String {
    let tag = if problems.iter().all(|p| p.leak_saved) {
        TAG_LEAK_SAVED
    } else if problems.iter().all(|p| p.leak_dir) {
        TAG_LEAK_DIR
    } else {
        ""
    };
    let texts: Vec<&str> = problems.iter().map(|p| p.text.as_str()).collect();
    format!("{tag}{extra} {} || script: {}", texts.join(" | "), script.replace('\n', "\\n"))
}

fn outcome_of(rep: Report) -> Outcome {
    if let Some(why) = rep.skip {
        return Outcome::skip(why);
    }
    let mut out = if rep.problems.is_empty() {
        Outcome::pass(rep.nontrivial)
    } else {
        Outcome::fail(problems_message(&rep.problems, &rep.script, ""))
    };
    out.classes = rep.classes;
    out
}

fn check_list(c: &Case) -> Outcome {
    outcome_of(check_case(c))
}

fn known(_c: &Case, msg: &str) -> Option<&'static str> {
    if msg.starts_with(TAG_LEAK_SAVED) {
        Some("redir-failed-leaves-saved-fd")
    } else {
        None
    }
}

pub static LIST: Driver<Case> = Driver::new("C09", "list", check_list).with_known(known);
pub static SINGLE: Driver<Case> = Driver::new("C09", "single", check_list).with_known(known);

// ---- sweep over the descriptor limit

#[derive(Clone, Debug, PartialEq, Eq, Hash, Serialize, Deserialize)]
pub struct SweepCase {
    pub base: Case,
}

pub const LIMITS: std::ops::RangeInclusive<u8> = 3..=16;

const LIMIT_LABELS: [&str; 17] = [
    "limit-hit@0", "limit-hit@1", "limit-hit@2", "limit-hit@3", "limit-hit@4", "limit-hit@5", "limit-hit@6", "limit-hit@7", "limit-hit@8",
    "limit-hit@9", "limit-hit@10", "limit-hit@11", "limit-hit@12", "limit-hit@13", "limit-hit@14", "limit-hit@15", "limit-hit@16",
];

fn check_sweep(c: &SweepCase) -> Outcome {
    let mut classes: Vec<&'static str> = vec![];
    let mut nontrivial = false;
    let mut bad: Vec<(Limit, Report)> = vec![];
    let mut stopped_early = 0;
    for in_script in [false, true] {
        for n in LIMITS {
            let mut case = c.base.clone();
            let limit = Limit { n, in_script };
            case.limit = Some(limit);
            let rep = check_case(&case);
            if let Some(why) = rep.skip {
                return Outcome::skip(why);
            }
            if rep.limit_hit {
                nontrivial = true;
                let l = LIMIT_LABELS[n as usize];
                if !classes.contains(&l) {
                    classes.push(l);
                }
            }
            if rep.classes.contains(&"limit:shell-stopped-before-the-command") {
                stopped_early += 1;
            }
            if !rep.problems.is_empty() {
                bad.push((limit, rep));
            }
        }
    }
    classes.push(c.base.kind.label());
    if stopped_early > 0 {
        classes.push("some-limits-stop-the-shell-during-set-up");
    }
    if nontrivial {
        classes.push("limit-hit");
    }
    if bad.is_empty() {
        let mut out = Outcome::pass(nontrivial);
        out.classes = classes;
        return out;
    }
    // report a problem that is not the known signature first
    bad.sort_by_key(|(_, rep)| rep.problems.iter().all(|p| p.leak_saved));
    let all_leak = bad.iter().all(|(_, rep)| rep.problems.iter().all(|p| p.leak_saved));
    let (limit, rep) = &bad[0];
    let extra = format!(" (RLIMIT_NOFILE={} set {})", limit.n, if limit.in_script { "by `ulimit -n` after the initial table" } else { "before start-up" });
    let mut msg = problems_message(&rep.problems, &rep.script, &extra);
    if !all_leak && msg.starts_with(TAG_LEAK_SAVED) {
        msg = format!("(mixed) {msg}");
    }
    let mut out = Outcome::fail(msg);
    out.classes = classes;
    out
}

fn known_sweep(_c: &SweepCase, msg: &str) -> Option<&'static str> {
    if msg.starts_with(TAG_LEAK_SAVED) { Some("redir-failed-leaves-saved-fd") } else { None }
}

pub static SWEEP: Driver<SweepCase> = Driver::new("C09", "sweep", check_sweep).with_known(known_sweep);

// ---- descriptor exhaustion inside constructs that allocate descriptors themselves (pipelines,
//      command substitutions, here-documents, sourced files), in a shell that survives the failure

#[derive(Clone, Debug, PartialEq, Eq, Hash, Serialize, Deserialize)]
pub struct ExhaustCase {
    /// index into EXHAUST_CONSTRUCTS
    pub construct: u8,
    /// soft RLIMIT_NOFILE set by `ulimit -n` right before the construct
    pub limit: u8,
    /// descriptors 3.. opened beforehand (so that allocations fail at different points)
    pub pre_open: u8,
    /// interactive shell reading the script from standard input (an interrupted command does not end
    /// it); otherwise the table is inspected by the EXIT trap
    pub interactive: bool,
}

pub const EXHAUST_CONSTRUCTS: [&str; 16] = [
    "st 0 | st 0",
    "st 0 | st 0 | st 0",
    "st 0 | st 0 | st 0 | st 0",
    "st 0 | st 0 | st 0 | st 0 | st 0",
    "x=$(st 0)",
    "x=$(st 0 | st 0 | st 0)",
    "x=$(echo $(echo $(echo a)))",
    "cat <<EOF >/dev/null\nbody\nEOF",
    "cat <<EOF | cat | cat >/dev/null\nbody\nEOF",
    "(st 0 | st 0) | (st 0 | st 0)",
    "for i in a b; do st 0 | st 0 | st 0; done",
    "{ st 0 | st 0 | st 0; } >/dev/null 2>&1",
    "echo a$(st 0)b$(st 0 | st 0) | cat >/dev/null",
    "st 0 | st 0 | st 0 &\nwait",
    "command . ./dotf >/dev/null",
    "f() { st 0 | st 0 | st 0; }; f 8>/dev/null",
];

fn check_exhaust(c: &ExhaustCase) -> Outcome {
    let construct = EXHAUST_CONSTRUCTS[c.construct as usize % EXHAUST_CONSTRUCTS.len()];
    let mut script = String::new();
    for k in 0..c.pre_open.min(6) {
        script.push_str(&format!("exec {}</dev/null\n", 3 + k));
    }
    if c.interactive {
        script.push_str(&format!("snap before\nulimit -n {}\n{construct}\nsnap after\n", c.limit));
    } else {
        // a non-interactive shell is ended by the failure: look at the table from the EXIT trap
        script.push_str(&format!("trap 'snap after' EXIT\nsnap before\nulimit -n {}\n{construct}\n", c.limit));
    }
    let mut s = vsys::Setup::script(&script);
    if c.interactive {
        s.argv = vec!["yash".into(), "-i".into()];
        s.stdin = Some(script.clone().into_bytes());
    }
    s.files.push(("dotf".into(), vsys::FileSpec::Regular { content: "st 0 | st 0\n".into(), mode: 0o644, exec: false }));
    s.drain = true;
    let r = vsys::run(&s);
    let ctx = |m: String| format!("{m}\ninteractive {} limit {} descriptors opened beforehand {}\nscript:\n{script}stderr: {:?}", c.interactive, c.limit, c.pre_open.min(6), r.stderr.lines().filter(|l| l.contains("error") || l.contains("cannot")).take(3).collect::<Vec<_>>());
    if let Some(p) = &r.panic {
        return Outcome::fail(ctx(format!("panic: {p}")));
    }
    if r.log.deadlock {
        return Outcome::fail(ctx("deadlock".into()));
    }
    let main = r.main_pid;
    let table = |tag: &str| r.proc_snaps.iter().find(|(t, p)| t == tag && p.pid == main).map(|(_, p)| p.fds.iter().map(|(fd, i)| (*fd, i.ofd, i.cloexec)).collect::<Vec<_>>());
    let Some(before) = table("before") else {
        return Outcome::skip("the set-up did not reach the construct");
    };
    let Some(after) = table("after") else {
        // `ulimit` itself may end a non-interactive shell... the EXIT trap still runs; an interactive
        // shell always goes on
        return Outcome::fail(ctx("the descriptor table could not be inspected after the construct (no `snap after`)".into()));
    };
    if before != after {
        return Outcome::fail(ctx(format!(
            "the shell's descriptor table changed across a command without `exec` redirections: before {before:?} after {after:?} (fd, open file description, close-on-exec) - a descriptor was left behind when descriptor allocation failed part-way"
        )));
    }
    // no child may be left unreaped or alive once the shell is done (the background case waits)
    let failed = r.stderr.contains("cannot") || r.stderr.contains("error");
    Outcome::pass(failed)
        .class_if(failed, "allocation-failed-inside-the-construct")
        .class_if(!failed, "limit-not-reached")
        .class_if(c.interactive, "interactive-shell-survives")
        .class(match c.construct as usize % EXHAUST_CONSTRUCTS.len() {
            0..=3 | 9..=11 | 13 | 15 => "exhaust:pipeline",
            4..=6 | 12 => "exhaust:command-substitution",
            7 | 8 => "exhaust:here-document",
            _ => "exhaust:dot-script",
        })
}

pub static EXHAUST: Driver<ExhaustCase> = Driver::new("C09", "exhaust", check_exhaust);

// ---- pathname expansion (directory scans) must not leave descriptors open

#[derive(Clone, Debug, PartialEq, Eq, Hash, Serialize, Deserialize)]
pub struct GlobCase {
    pub init: Vec<InitFd>,
    /// indices into GLOB_WORDS
    pub words: Vec<u8>,
    /// 0: `echo WORDS`, 1: `echo WORDS >n1`, 2: `for i in WORDS; do :; done`, 3: `( echo WORDS )`,
    /// 4: `case x in WORD) ;; esac` (no scan: control)
    pub shape: u8,
}

const GLOB_WORDS: [&str; 6] = ["*", "d/*", "*/*", "f?", "nomatch*", "plain"];

fn check_glob(c: &GlobCase) -> Outcome {
    let mut script = String::new();
    let mut seen = BTreeSet::new();
    for i in &c.init {
        if !(3..=9).contains(&i.fd) || !seen.insert(i.fd) {
            return Outcome::skip("generator: bad initial descriptor");
        }
        let fd = i.fd;
        script.push_str(&match i.mode {
            InitMode::Write => format!("exec {fd}>i{fd}\n"),
            InitMode::Read => format!("exec {fd}<f2\n"),
            InitMode::Append => format!("exec {fd}>>f1\n"),
            InitMode::ReadWrite => format!("exec {fd}<>f2\n"),
            InitMode::DupStdout => format!("exec {fd}>&1\n"),
        });
    }
    if c.words.is_empty() || c.words.iter().any(|w| *w as usize >= GLOB_WORDS.len()) {
        return Outcome::skip("generator: bad word list");
    }
    let words: Vec<&str> = c.words.iter().map(|w| GLOB_WORDS[*w as usize]).collect();
    let ws = words.join(" ");
    script.push_str("snap before\n");
    script.push_str(&match c.shape {
        0 => format!("echo {ws}\n"),
        1 => format!("echo {ws} >n1\n"),
        2 => format!("for i in {ws}; do snap in; done\n"),
        3 => format!("( echo {ws} )\n"),
        _ => format!("case x in {}) ;; esac\n", words[0]),
    });
    script.push_str("snap after\n");
    let case = Case { init: vec![], noclobber: false, via_file: false, kind: Kind::Colon, redirs: vec![], prefix: false, fail_status: false, limit: None };
    let r = vsys::run(&make_setup(&case, &script));
    let mut ck = Checker::new(&r);
    if let Some(p) = &r.panic {
        return Outcome::fail(format!("panic: {p} || script: {script:?}"));
    }
    if !r.finished {
        return Outcome::fail(format!("the shell did not finish || script: {script:?}"));
    }
    let befores = find_snap(&r, "before");
    let afters = find_snap(&r, "after");
    let (Some(b), Some(a)) = (befores.first(), afters.first()) else {
        return Outcome::fail(format!("snapshots missing; status {} stderr {:?} || script: {script:?}", r.status, r.stderr));
    };
    ck.before_ptrs = b.fds.values().map(|f| f.ofd).collect();
    ck.same_table("after", b, a, false, false);
    for p in find_snap(&r, "in") {
        ck.same_table("in (loop body)", b, p, false, false);
    }
    if let Some(f) = r.procs.iter().find(|p| p.pid == r.main_pid) {
        ck.same_table("end of run", b, f, false, false);
    }
    let scans = c.shape != 4 && c.words.iter().any(|w| (*w as usize) < 5);
    if ck.problems.is_empty() {
        Outcome::pass(scans)
            .class(match c.shape {
                0 => "glob:simple-command",
                1 => "glob:with-redirection",
                2 => "glob:for-words",
                3 => "glob:subshell",
                _ => "glob:case-pattern(no scan)",
            })
            .class_if(!c.init.is_empty(), "target-closed-or-open-elsewhere")
    } else {
        Outcome::fail(problems_message(&ck.problems, &script, ""))
    }
}

fn known_glob(_c: &GlobCase, msg: &str) -> Option<&'static str> {
    if msg.starts_with(TAG_LEAK_DIR) { Some("virtual-opendir-fd-leak") } else { None }
}

pub static GLOB: Driver<GlobCase> = Driver::new("C09", "glob", check_glob).with_known(known_glob);

// ---------------------------------------------------------------------------------------------
// Generators

fn arb_init() -> impl Strategy<Value = Vec<InitFd>> {
    let mode = prop_oneof![
        3 => Just(InitMode::Write),
        2 => Just(InitMode::Read),
        1 => Just(InitMode::Append),
        1 => Just(InitMode::ReadWrite),
        1 => Just(InitMode::DupStdout),
    ];
    let some = prop::collection::vec((3u8..10, mode.clone()), 0..4).prop_map(|v| {
        let mut seen = BTreeSet::new();
        v.into_iter().filter(|(fd, _)| seen.insert(*fd)).map(|(fd, mode)| InitFd { fd, mode }).collect::<Vec<InitFd>>()
    });
    // every descriptor below 10 in use: whatever the shell opens for itself is at 10 or above from
    // the start (no move), and must still be close-on-exec and out of the script's reach
    let full = prop::collection::vec(mode, 7).prop_map(|m| m.into_iter().enumerate().map(|(i, mode)| InitFd { fd: 3 + i as u8, mode }).collect::<Vec<InitFd>>());
    prop_oneof![8 => some, 1 => full]
}

fn arb_target() -> impl Strategy<Value = Option<u8>> {
    prop_oneof![
        8 => Just(None),
        11 => (0u8..10).prop_map(Some),
        1 => Just(Some(10)),
    ]
}

fn arb_path() -> impl Strategy<Value = PathKind> {
    prop_oneof![
        6 => Just(PathKind::F1),
        3 => Just(PathKind::F2),
        4 => Just(PathKind::N1),
        2 => Just(PathKind::N2),
        1 => Just(PathKind::DirNew),
        1 => Just(PathKind::MissingDir),
        2 => Just(PathKind::ThroughFile),
        1 => Just(PathKind::Dir),
        2 => Just(PathKind::LinkF1),
        1 => Just(PathKind::LinkN2),
        1 => Just(PathKind::LinkDirNew),
    ]
}

fn arb_redir() -> impl Strategy<Value = Redir> {
    let file = (
        arb_target(),
        prop::sample::select(FILE_OPS.to_vec()),
        prop_oneof![12 => arb_path().prop_map(Operand::Path), 1 => Just(Operand::ExpErr)],
    )
        .prop_map(|(fd, op, operand)| Redir { fd, op, operand });
    let dup = (
        arb_target(),
        prop::sample::select(DUP_OPS.to_vec()),
        prop_oneof![
            12 => (0u8..12).prop_map(Operand::Fd),
            3 => Just(Operand::Close),
            1 => Just(Operand::Malformed),
            1 => Just(Operand::ExpErr),
        ],
    )
        .prop_map(|(fd, op, operand)| Redir { fd, op, operand });
    let here = (
        arb_target(),
        prop::sample::select(HERE_OPS.to_vec()),
        prop::collection::vec(0u8..HERE_LINES.len() as u8, 0..4),
        any::<bool>(),
    )
        .prop_map(|(fd, op, lines, quoted)| Redir { fd, op, operand: Operand::Here { lines, quoted } });
    prop_oneof![6 => file, 5 => dup, 1 => here]
}

fn arb_case() -> impl Strategy<Value = Case> {
    (
        arb_init(),
        prop::bool::weighted(0.35),
        prop::bool::weighted(0.25),
        prop::sample::select(ALL_KINDS.to_vec()),
        prop::collection::vec(arb_redir(), 1..4),
        prop::bool::weighted(0.25),
        prop::bool::weighted(0.3),
    )
        .prop_map(|(init, noclobber, via_file, kind, mut redirs, prefix, fail_status)| {
            if !via_file {
                for r in &mut redirs {
                    if r.fd == Some(10) {
                        r.fd = Some(9);
                    }
                }
            }
            Case { init, noclobber, via_file, kind, redirs, prefix, fail_status, limit: None }
        })
}

fn arb_sweep_case() -> impl Strategy<Value = SweepCase> {
    arb_case().prop_map(|base| SweepCase { base })
}

fn arb_glob_case() -> impl Strategy<Value = GlobCase> {
    (arb_init(), prop::collection::vec(0u8..GLOB_WORDS.len() as u8, 1..4), 0u8..5).prop_map(|(init, words, shape)| GlobCase { init, words, shape })
}

/// Every operator/operand pair of the `single` enumeration.
fn single_catalogue() -> Vec<(Op, Operand)> {
    let mut v = vec![];
    for op in FILE_OPS {
        for p in ALL_PATHS {
            v.push((op, Operand::Path(p)));
        }
        v.push((op, Operand::ExpErr));
    }
    for op in DUP_OPS {
        for n in [0u8, 1, 2, 3, 4, 5, 6, 7, 10] {
            v.push((op, Operand::Fd(n)));
        }
        v.push((op, Operand::Close));
        v.push((op, Operand::Malformed));
        v.push((op, Operand::ExpErr));
    }
    for op in HERE_OPS {
        for quoted in [false, true] {
            v.push((op, Operand::Here { lines: vec![1, 2, 4, 5, 9], quoted }));
        }
    }
    v
}

/// initial table of the `single` enumeration: 3 write, 4 read, 5 append, 6 read-write, 7 closed
fn single_init() -> Vec<InitFd> {
    vec![
        InitFd { fd: 3, mode: InitMode::Write },
        InitFd { fd: 4, mode: InitMode::Read },
        InitFd { fd: 5, mode: InitMode::Append },
        InitFd { fd: 6, mode: InitMode::ReadWrite },
    ]
}

const SINGLE_TARGETS: [Option<u8>; 7] = [None, Some(0), Some(2), Some(3), Some(4), Some(7), Some(10)];

pub fn run(ctx: &Ctx, st: &mut Stats) {
    // exhaustive: one redirection
    let cat = single_catalogue();
    let (nk, nc, nt) = (ALL_KINDS.len() as u64, cat.len() as u64, SINGLE_TARGETS.len() as u64);
    let total = nk * nc * nt * 2;
    let cat_r = &cat;
    let decode = move |i: u64| -> Option<Case> {
        let noclobber = i % 2 == 1;
        let i = i / 2;
        let target = SINGLE_TARGETS[(i % nt) as usize];
        let i = i / nt;
        let (op, operand) = cat_r[(i % nc) as usize].clone();
        let kind = ALL_KINDS[(i / nc) as usize];
        let via_file = target == Some(10) || operand == Operand::Fd(10);
        Some(Case {
            init: single_init(),
            noclobber,
            via_file,
            kind,
            redirs: vec![Redir { fd: target, op, operand }],
            prefix: false,
            fail_status: false,
            limit: None,
        })
    };
    SINGLE.run_exhaustive(ctx, st, total, &decode);
    st.extra.insert(
        "exhaustive_space".into(),
        serde_json::json!({"driver": "single", "kinds": nk, "operator_operand_pairs": nc, "targets": nt, "noclobber": 2, "cases": total}),
    );

    let n = ctx.tier.pick(700_000, 10_000_000);
    LIST.run_random(ctx, st, n, arb_case);

    let n = ctx.tier.pick(8_000, 100_000);
    SWEEP.run_random(ctx, st, n, arb_sweep_case);
    st.add_extra_count("sweep_shell_runs", n * 2 * (LIMITS.end() - LIMITS.start() + 1) as u64);
    st.extra.insert(
        "fault_enumeration".into(),
        serde_json::json!({
            "what": "every sweep case is re-run under each soft RLIMIT_NOFILE value, once with the limit set before start-up (vsys::Setup.nofile) and once set by `ulimit -n` after the initial table exists",
            "limits": [*LIMITS.start(), *LIMITS.end()],
            "enforced_on": "every descriptor allocation of the simulated OS goes through Process::set_fd (open, open_tmpfile, dup >= 10, dup2, pipe, opendir): EMFILE for allocations, EBADF for dup2 onto a number >= the limit",
            "oracle": "invariants only (which allocation fails is not predicted)"
        }),
    );

    let n = ctx.tier.pick(3_000, 60_000);
    GLOB.run_random(ctx, st, n, arb_glob_case);

    // fault enumeration: every construct x every limit 3..=20 x 0..=4 descriptors opened beforehand
    // x interactive or not
    let (nc, nl, np) = (EXHAUST_CONSTRUCTS.len() as u64, 18u64, 5u64);
    let total = nc * nl * np * 2;
    EXHAUST.run_exhaustive(ctx, st, total, &move |i| {
        let interactive = i % 2 == 0;
        let i = i / 2;
        let pre_open = (i % np) as u8;
        let i = i / np;
        let limit = 3 + (i % nl) as u8;
        let construct = (i / nl) as u8;
        Some(ExhaustCase { construct, limit, pre_open, interactive })
    });
    st.extra.insert("exhaust_space".into(), serde_json::json!({"constructs": nc, "limits": [3, 20], "pre_opened": [0, 4], "shells": 2, "cases": total}));
}

pub fn replay(driver: &str, case: &serde_json::Value) -> Result<(Outcome, Option<&'static str>), String> {
    match driver {
        "list" => LIST.replay_known(case),
        "single" => SINGLE.replay_known(case),
        "sweep" => SWEEP.replay_known(case),
        "glob" => GLOB.replay_known(case),
        "exhaust" => EXHAUST.replay_known(case),
        _ => Err(format!("unknown driver {driver}")),
    }
}
