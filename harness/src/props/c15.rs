//! C15 — the executor never loses a wake-up and never polls a finished task.
//!
//! Cases are small *task systems*: scripts of actions interpreted by hand-written, instrumented
//! futures (`TaskFut`) running on a real `yash_executor::Executor`. Every poll, every wake the
//! futures issue, every spawn and every outcome of a poll goes to a shared log.
//!
//! Two oracles, neither of which calls the executor:
//!
//! 1. `check_invariants` — order-agnostic invariants over the log (no lost wake-up, no poll after
//!    completion, no nested poll, no poll without a wake, at most one queue entry per task,
//!    bounded bypass, receivers deliver exactly once, genuine stall).
//! 2. `Model` — a pure reference scheduler (first-in-first-out queue of task numbers with
//!    duplicate suppression) interpreting the same scripts without any future, waker or
//!    executor; its log must equal the observed log event for event.
//!
//! Each system is driven twice, by `run_until_stalled` and by `step` in a loop; as
//! `run_until_stalled` is documented as "repeatedly calls `step` until it returns `None`" both
//! logs must be identical.

use crate::engine::*;
use proptest::prelude::*;
use serde::{Deserialize, Serialize};
use std::cell::RefCell;
use std::collections::VecDeque;
use std::future::Future;
use std::pin::Pin;
use std::rc::{Rc, Weak};
use std::task::{Context, Poll, Waker};
use yash_executor::forwarder::{Receiver, TryReceiveError};
use yash_executor::{Executor, Spawner};

pub const INFO: PropInfo = PropInfo {
    id: "C15",
    level: "exploration",
    rule: "cases = task systems (scripts of actions {yield-with-self-wake, wait on channel k, signal channel k once/twice, wake the last known waker of task j, spawn a child script through Spawner (with or without Receiver), join the latest child's Receiver, complete with a value}; the first `initial` scripts are spawned through Executor::spawn / spawn_pinned; after each stall one external action is applied from outside any poll) run twice on a real Executor (run_until_stalled, step loop). Exhaustive tier: every system of <=3 tasks x <=3 actions over a 7-letter alphabet (quick: 6 letters for the 3-task systems) with 2 channels, plus every parent(<=4 actions, 8 letters) x child(<=3 actions, 5 letters) spawn/join system; thorough adds a strided walk over <=4 tasks x <=4 actions; random tier: <=8 scripts x <=10 actions, 3 channels, <=24 task instances. Non-trivial = at least one wake was issued while its target was being polled (self-wake) or at least one duplicate wake (target already had an unconsumed wake) occurred; distinct by serialised case (random) or by index (exhaustive).",
    assumptions: &[
        "'task queue' in the public docs of Executor::spawn/step (and 'Queue of woken tasks' on ExecutorState::wake_queue, VecDeque push_back/pop_front) is read as first-in-first-out; the exact-order comparison with the reference scheduler and the bounded-bypass bound rest on this reading",
        "a completed task whose stale waker is woken may occupy one queue entry and make step() return Some(true) without polling anything (Task::poll: 'returns true and will do nothing on subsequent calls'); the order-agnostic invariants therefore bound wake_count() by (live tasks with an unconsumed wake) + (completed tasks woken since the last stall) instead of the number of live tasks, and accept run_until_stalled() counting such entries",
        "all futures, wakers and the executor stay on one thread; wakers are used through clone, wake, wake_by_ref and drop",
    ],
};

pub const MAX_TASKS: usize = 24;
pub const NCHAN: usize = 3;
const EXT: u16 = u16::MAX;
const POLL_BUDGET: u32 = 20_000;

#[derive(Clone, Copy, Debug, PartialEq, Eq, Hash, Serialize, Deserialize)]
pub enum Action {
    /// wake own waker (wake_by_ref), return Pending
    Yield,
    /// register own waker with channel k; Pending until k has been signalled after the (first)
    /// registration
    Wait(u8),
    /// bump the generation of channel k, wake every registered waker (twice if the flag is set)
    /// and forget them
    Signal(u8, bool),
    /// wake (consuming a clone of) the waker task instance j presented at its latest poll
    WakeTask(u8),
    /// spawn a new instance of script c through `Spawner::spawn`, keep the `Receiver`
    /// (no-op unless own script index < c < number of scripts and fewer than MAX_TASKS exist)
    Spawn(u8),
    /// same through `Spawner::spawn_pinned` (no Receiver)
    SpawnPinned(u8),
    /// poll the Receiver of the most recently spawned, not yet joined child (no-op if none)
    Join,
    /// finish with this value (a script that runs off its end finishes with 100 + task number)
    Complete(i32),
}
use Action::*;

#[derive(Clone, Debug, PartialEq, Eq, Hash, Serialize, Deserialize)]
pub struct SysCase {
    pub scripts: Vec<Vec<Action>>,
    /// scripts 0..initial are spawned before the first run, in order
    pub initial: u8,
    /// bit i set: initial task i goes through `spawn_pinned` (no Receiver)
    pub pinned: u8,
    /// applied from outside, one after each stall (only Signal, WakeTask, Spawn, SpawnPinned act)
    pub ext: Vec<Action>,
}

#[derive(Clone, Copy, Debug, PartialEq, Eq)]
enum Ev {
    Spawned { task: u16, script: u8, by: u16, pinned: bool },
    /// start of a poll; wc = Executor::wake_count() seen from inside the poll (255: unavailable)
    Poll { task: u16, pc: u8, wc: u8 },
    Signal { by: u16, chan: u8 },
    Wake { by: u16, target: u16 },
    /// poll outcomes
    Yielded { task: u16 },
    Blocked { task: u16, chan: u8 },
    JoinBlocked { task: u16, child: u16 },
    Ready { task: u16, value: i32 },
    /// a Receiver polled inside a task produced a value
    Joined { task: u16, child: u16, value: i32 },
    /// the executor reported that nothing is left to run
    Stall,
    /// detected by the futures themselves
    PolledAfterReady { task: u16 },
    Nested { task: u16, inside: u16 },
    BudgetExhausted,
}

// =============================================================================================
// Real run: instrumented futures on the executor under test

struct Chan {
    generation: u32,
    waiters: Vec<(u16, Waker)>,
}

struct World {
    scripts: Rc<Vec<Vec<Action>>>,
    log: Vec<Ev>,
    chans: Vec<Chan>,
    wakers: Vec<Option<Waker>>,
    receivers: Vec<Option<Receiver<i32>>>,
    done: Vec<Option<i32>>,
    current: Option<u16>,
    polls: u32,
    spawner: Spawner<'static>,
    exec: Weak<Executor<'static>>,
    notes: Vec<String>,
}
type W = Rc<RefCell<World>>;

struct TaskFut {
    w: W,
    id: u16,
    script: u8,
    pc: usize,
    waiting: Option<(u8, u32)>,
    children: Vec<u16>,
    finished: bool,
}

/// Adapter for `spawn_pinned`: drops the value.
struct Discard(TaskFut);
impl Future for Discard {
    type Output = ();
    fn poll(mut self: Pin<&mut Self>, cx: &mut Context<'_>) -> Poll<()> {
        Pin::new(&mut self.0).poll(cx).map(|_| ())
    }
}

enum Via<'e> {
    Exec(&'e Executor<'static>),
    Spawner,
}

fn spawn_task(w: &W, script: u8, by: u16, pinned: bool, via: Via<'_>) -> Option<u16> {
    let (id, spawner) = {
        let mut wb = w.borrow_mut();
        if wb.done.len() >= MAX_TASKS {
            return None;
        }
        let id = wb.done.len() as u16;
        wb.done.push(None);
        wb.wakers.push(None);
        wb.receivers.push(None);
        wb.log.push(Ev::Spawned { task: id, script, by, pinned });
        (id, wb.spawner.clone())
    };
    let fut = TaskFut { w: w.clone(), id, script, pc: 0, waiting: None, children: vec![], finished: false };
    let rx = match (via, pinned) {
        (Via::Exec(e), false) => Some(unsafe { e.spawn(fut) }),
        (Via::Exec(e), true) => {
            unsafe { e.spawn_pinned(Box::pin(Discard(fut))) };
            None
        }
        (Via::Spawner, false) => match unsafe { spawner.spawn(fut) } {
            Ok(rx) => Some(rx),
            Err(_) => {
                w.borrow_mut().notes.push(format!("Spawner::spawn failed for task {id} although the executor is alive"));
                None
            }
        },
        (Via::Spawner, true) => {
            if unsafe { spawner.spawn_pinned(Box::pin(Discard(fut))) }.is_err() {
                w.borrow_mut().notes.push(format!("Spawner::spawn_pinned failed for task {id} although the executor is alive"));
            }
            None
        }
    };
    w.borrow_mut().receivers[id as usize] = rx;
    Some(id)
}

fn spawn_allowed(nscripts: usize, by_script: Option<u8>, c: u8) -> bool {
    (c as usize) < nscripts && by_script.is_none_or(|s| c > s)
}

/// Signal / WakeTask / Spawn / SpawnPinned, shared by tasks and the external actor.
fn apply_simple(w: &W, by: u16, by_script: Option<u8>, a: Action, children: Option<&mut Vec<u16>>) {
    match a {
        Signal(k, twice) => {
            let k = k as usize % NCHAN;
            let ws = {
                let mut wb = w.borrow_mut();
                wb.chans[k].generation += 1;
                wb.log.push(Ev::Signal { by, chan: k as u8 });
                std::mem::take(&mut wb.chans[k].waiters)
            };
            for (target, wk) in ws {
                for _ in 0..(1 + twice as usize) {
                    w.borrow_mut().log.push(Ev::Wake { by, target });
                    wk.wake_by_ref();
                }
            }
        }
        WakeTask(j) => {
            let wk = w.borrow().wakers.get(j as usize).and_then(|o| o.clone());
            if let Some(wk) = wk {
                w.borrow_mut().log.push(Ev::Wake { by, target: j as u16 });
                wk.wake();
            }
        }
        Spawn(c) | SpawnPinned(c) => {
            let n = w.borrow().scripts.len();
            if spawn_allowed(n, by_script, c) {
                let pinned = matches!(a, SpawnPinned(_));
                if let Some(id) = spawn_task(w, c, by, pinned, Via::Spawner) {
                    if !pinned {
                        if let Some(ch) = children {
                            ch.push(id);
                        }
                    }
                }
            }
        }
        _ => {}
    }
}

impl TaskFut {
    fn run(&mut self, cx: &mut Context<'_>) -> Poll<i32> {
        let w = self.w.clone();
        let scripts = w.borrow().scripts.clone();
        let script = &scripts[self.script as usize];
        loop {
            let a = script.get(self.pc).copied().unwrap_or(Complete(100 + self.id as i32));
            match a {
                Complete(v) => {
                    self.finished = true;
                    let mut wb = w.borrow_mut();
                    wb.done[self.id as usize] = Some(v);
                    wb.log.push(Ev::Ready { task: self.id, value: v });
                    return Poll::Ready(v);
                }
                Yield => {
                    self.pc += 1;
                    w.borrow_mut().log.push(Ev::Wake { by: self.id, target: self.id });
                    cx.waker().wake_by_ref();
                    w.borrow_mut().log.push(Ev::Yielded { task: self.id });
                    return Poll::Pending;
                }
                Wait(k) => {
                    let k = k as usize % NCHAN;
                    let mut wb = w.borrow_mut();
                    let now = wb.chans[k].generation;
                    match self.waiting {
                        Some((_, since)) if now > since => {
                            self.waiting = None;
                            self.pc += 1;
                        }
                        _ => {
                            if self.waiting.is_none() {
                                self.waiting = Some((k as u8, now));
                            }
                            wb.chans[k].waiters.push((self.id, cx.waker().clone()));
                            wb.log.push(Ev::Blocked { task: self.id, chan: k as u8 });
                            return Poll::Pending;
                        }
                    }
                }
                Join => match self.children.last().copied() {
                    None => self.pc += 1,
                    Some(c) => {
                        let rx = w.borrow_mut().receivers[c as usize].take();
                        let Some(mut rx) = rx else {
                            self.children.pop();
                            continue;
                        };
                        let r = Pin::new(&mut rx).poll(cx);
                        let mut wb = w.borrow_mut();
                        wb.receivers[c as usize] = Some(rx);
                        match r {
                            Poll::Ready(v) => {
                                wb.log.push(Ev::Joined { task: self.id, child: c, value: v });
                                self.children.pop();
                                self.pc += 1;
                            }
                            Poll::Pending => {
                                wb.log.push(Ev::JoinBlocked { task: self.id, child: c });
                                return Poll::Pending;
                            }
                        }
                    }
                },
                Signal(..) | WakeTask(_) | Spawn(_) | SpawnPinned(_) => {
                    self.pc += 1;
                    apply_simple(&w, self.id, Some(self.script), a, Some(&mut self.children));
                }
            }
        }
    }
}

impl Future for TaskFut {
    type Output = i32;
    fn poll(mut self: Pin<&mut Self>, cx: &mut Context<'_>) -> Poll<i32> {
        let this = &mut *self;
        let w = this.w.clone();
        let outer;
        {
            let mut wb = w.borrow_mut();
            if this.finished {
                wb.log.push(Ev::PolledAfterReady { task: this.id });
                return Poll::Pending;
            }
            if let Some(cur) = wb.current {
                wb.log.push(Ev::Nested { task: this.id, inside: cur });
                return Poll::Pending;
            }
            wb.polls += 1;
            if wb.polls > POLL_BUDGET {
                if wb.polls == POLL_BUDGET + 1 {
                    wb.log.push(Ev::BudgetExhausted);
                }
                return Poll::Pending;
            }
            let wc = wb.exec.upgrade().map(|e| e.wake_count().min(254) as u8).unwrap_or(255);
            outer = wb.current.replace(this.id);
            wb.log.push(Ev::Poll { task: this.id, pc: this.pc.min(255) as u8, wc });
            let new = cx.waker().clone();
            let old = wb.wakers[this.id as usize].replace(new);
            drop(wb);
            drop(old);
        }
        let r = this.run(cx);
        w.borrow_mut().current = outer;
        r
    }
}

#[derive(Clone, Copy, Debug, PartialEq, Eq)]
struct StepObs {
    from: u32,
    to: u32,
    ret: Option<bool>,
    wc_after: u8,
}

#[derive(Clone, Copy, Debug, PartialEq, Eq)]
struct RunObs {
    from: u32,
    to: u32,
    completed: u32,
}

#[derive(Clone, Debug, PartialEq, Eq)]
enum RxFinal {
    NoReceiver,
    /// (first try_receive, second try_receive) before teardown; third after teardown
    Seen(Result<i32, TryReceiveError>, Result<i32, TryReceiveError>, Result<i32, TryReceiveError>),
}

struct Run {
    log: Vec<Ev>,
    steps: Vec<StepObs>,
    runs: Vec<RunObs>,
    notes: Vec<String>,
    rx: Vec<RxFinal>,
    spawn_wc: Vec<u8>,
}

fn probe_unfinished(w: &W, when: &str) {
    let mut wb = w.borrow_mut();
    let wb = &mut *wb;
    for (t, rx) in wb.receivers.iter().enumerate() {
        if wb.done[t].is_none() {
            if let Some(rx) = rx {
                let r = rx.try_receive();
                if r != Err(TryReceiveError::NotSent) {
                    wb.notes.push(format!("try_receive for unfinished task {t} {when} returned {r:?}, expected Err(NotSent)"));
                }
            }
        }
    }
}

fn run_real(case: &SysCase, scripts: &Rc<Vec<Vec<Action>>>, step_mode: bool) -> Run {
    let exec = Rc::new(Executor::new());
    let w: W = Rc::new(RefCell::new(World {
        scripts: scripts.clone(),
        log: Vec::with_capacity(96),
        chans: (0..NCHAN).map(|_| Chan { generation: 0, waiters: vec![] }).collect(),
        wakers: vec![],
        receivers: vec![],
        done: vec![],
        current: None,
        polls: 0,
        spawner: exec.spawner(),
        exec: Rc::downgrade(&exec),
        notes: vec![],
    }));
    let mut spawn_wc = vec![];
    let initial = (case.initial as usize).min(case.scripts.len());
    for i in 0..initial {
        spawn_task(&w, i as u8, EXT, case.pinned >> i & 1 == 1, Via::Exec(&exec));
        spawn_wc.push(exec.wake_count().min(254) as u8);
    }
    let mut steps = vec![];
    let mut runs = vec![];
    let mut ext = case.ext.iter();
    let mut guard = 0u32;
    loop {
        if step_mode {
            loop {
                let from = w.borrow().log.len() as u32;
                let ret = exec.step();
                let wc_after = exec.wake_count().min(254) as u8;
                let to = w.borrow().log.len() as u32;
                steps.push(StepObs { from, to, ret, wc_after });
                probe_unfinished(&w, "after a step");
                guard += 1;
                if ret.is_none() {
                    break;
                }
                if guard > 4 * POLL_BUDGET {
                    w.borrow_mut().notes.push("step loop does not terminate".into());
                    break;
                }
            }
        } else {
            let from = w.borrow().log.len() as u32;
            let completed = exec.run_until_stalled() as u32;
            let to = w.borrow().log.len() as u32;
            runs.push(RunObs { from, to, completed });
            if exec.wake_count() != 0 {
                w.borrow_mut().notes.push(format!("wake_count() = {} right after run_until_stalled returned", exec.wake_count()));
            }
            probe_unfinished(&w, "at a stall");
        }
        w.borrow_mut().log.push(Ev::Stall);
        match ext.next() {
            Some(&a) => apply_simple(&w, EXT, None, a, None),
            None => break,
        }
    }
    // final state of the receivers, before anything is torn down
    let receivers = std::mem::take(&mut w.borrow_mut().receivers);
    let mut firsts = vec![];
    for rx in &receivers {
        firsts.push(rx.as_ref().map(|rx| {
            let a = rx.try_receive();
            let b = rx.try_receive();
            (a, b)
        }));
    }
    // teardown: every waker the harness holds goes away, then the executor
    let (wakers, chans) = {
        let mut wb = w.borrow_mut();
        (std::mem::take(&mut wb.wakers), std::mem::take(&mut wb.chans))
    };
    drop(wakers);
    drop(chans);
    drop(exec);
    let mut rx = vec![];
    for (i, r) in receivers.iter().enumerate() {
        rx.push(match (r, &firsts[i]) {
            (Some(r), Some((a, b))) => RxFinal::Seen(*a, *b, r.try_receive()),
            _ => RxFinal::NoReceiver,
        });
    }
    drop(receivers);
    let mut wb = w.borrow_mut();
    Run {
        log: std::mem::take(&mut wb.log),
        steps,
        runs,
        notes: std::mem::take(&mut wb.notes),
        rx,
        spawn_wc,
    }
}

// =============================================================================================
// Oracle 1: invariants over the log (no assumption about the order of the queue except the
// bounded-bypass bound)

#[derive(Clone, Copy, Debug, PartialEq, Eq)]
enum Last {
    Never,
    Yielded,
    Blocked { chan: u8, signals_then: u32 },
    JoinBlocked { child: u16 },
}

struct TS {
    done: Option<i32>,
    has_rx: bool,
    received: bool,
    pending_wake: bool,
    stale_woken: bool,
    polls_at_wake: u32,
    live_at_wake: u32,
    last: Last,
}

#[derive(Default, Debug, Clone)]
struct Summary {
    self_wake_during_poll: bool,
    duplicate_wake: bool,
    dynamic_spawn: bool,
    stall_with_waiters: bool,
    all_complete: bool,
    stale_wake: bool,
    spurious_poll: bool,
    join: bool,
    join_blocked: bool,
    ext_wake: bool,
    ghost_step: bool,
    tasks: usize,
    polls: u32,
}

fn check_invariants(run: &Run, step_mode: bool) -> Result<Summary, String> {
    let log = &run.log;
    let mut s = Summary::default();
    let mut ts: Vec<TS> = vec![];
    let mut cur: Option<u16> = None;
    let mut polls: u32 = 0;
    let mut live: u32 = 0;
    let mut signals = [0u32; NCHAN];
    let mut relay_reg: Vec<Option<u16>> = vec![];
    // bookkeeping for the step / run observations
    let mut stale_wakes_at: Vec<u32> = vec![]; // log positions of wakes of completed tasks
    let mut seen_initial = 0usize;

    fn wake(ts: &mut [TS], s: &mut Summary, cur: Option<u16>, polls: u32, live: u32, by: u16, target: u16, pos: usize, stale: &mut Vec<u32>) -> Result<(), String> {
        let Some(t) = ts.get_mut(target as usize) else {
            return Err(format!("log[{pos}]: wake of unknown task {target}"));
        };
        if by == EXT {
            s.ext_wake = true;
        }
        if cur == Some(target) {
            s.self_wake_during_poll = true;
        }
        if t.done.is_some() {
            t.stale_woken = true;
            s.stale_wake = true;
            stale.push(pos as u32);
        } else if t.pending_wake {
            s.duplicate_wake = true;
        } else {
            t.pending_wake = true;
            t.polls_at_wake = polls;
            t.live_at_wake = live;
        }
        Ok(())
    }

    for (pos, ev) in log.iter().enumerate() {
        match *ev {
            Ev::Spawned { task, by, pinned, .. } => {
                if task as usize != ts.len() {
                    return Err(format!("log[{pos}]: harness error: task numbers out of order"));
                }
                if by != EXT {
                    s.dynamic_spawn = true;
                    if cur != Some(by) {
                        return Err(format!("log[{pos}]: harness error: spawn by {by} outside its poll"));
                    }
                } else if cur.is_some() {
                    return Err(format!("log[{pos}]: harness error: external spawn during a poll"));
                }
                live += 1;
                ts.push(TS {
                    done: None,
                    has_rx: !pinned,
                    received: false,
                    pending_wake: true, // being spawned counts as the first wake
                    stale_woken: false,
                    polls_at_wake: polls,
                    live_at_wake: live,
                    last: Last::Never,
                });
                relay_reg.push(None);
                if by == EXT && polls == 0 && seen_initial < run.spawn_wc.len() {
                    // documented in tests/executor.rs spawn::increases_wake_count and by
                    // "Adds a task to the task queue"
                    seen_initial += 1;
                    let wc = run.spawn_wc[seen_initial - 1];
                    if wc as usize != seen_initial {
                        return Err(format!("wake_count() = {wc} after spawning {seen_initial} initial task(s)"));
                    }
                }
            }
            Ev::Poll { task, wc, .. } => {
                if let Some(c) = cur {
                    return Err(format!("log[{pos}]: nested poll: task {task} polled while task {c} is being polled"));
                }
                let t = &mut ts[task as usize];
                if t.done.is_some() {
                    return Err(format!("log[{pos}]: task {task} polled after it completed"));
                }
                if !t.pending_wake {
                    return Err(format!("log[{pos}]: task {task} polled again without having been woken since its previous poll (more than one queue entry for one task)"));
                }
                let between = polls - t.polls_at_wake;
                if between > t.live_at_wake {
                    return Err(format!(
                        "log[{pos}]: bounded bypass violated: task {task} was woken when {} task(s) were live but {between} polls of other tasks happened before it was polled",
                        t.live_at_wake
                    ));
                }
                t.pending_wake = false;
                cur = Some(task);
                polls += 1;
                if wc != 255 {
                    let lower = ts.iter().filter(|t| t.done.is_none() && t.pending_wake).count();
                    let upper = lower + ts.iter().filter(|t| t.done.is_some() && t.stale_woken).count();
                    if (wc as usize) < lower || (wc as usize) > upper {
                        return Err(format!(
                            "log[{pos}]: wake_count() = {wc} at the start of the poll of task {task}, but {lower} live task(s) have an unconsumed wake and {} completed task(s) were woken (at most one queue entry per task)",
                            upper - lower
                        ));
                    }
                }
            }
            Ev::Signal { by, chan } => {
                if by != EXT && cur != Some(by) {
                    return Err(format!("log[{pos}]: harness error: signal by {by} outside its poll"));
                }
                signals[chan as usize] += 1;
            }
            Ev::Wake { by, target } => {
                if by != EXT && cur != Some(by) {
                    return Err(format!("log[{pos}]: harness error: wake by {by} outside its poll"));
                }
                wake(&mut ts, &mut s, cur, polls, live, by, target, pos, &mut stale_wakes_at)?;
            }
            Ev::Yielded { task } => {
                if cur != Some(task) {
                    return Err(format!("log[{pos}]: harness error: outcome of {task} outside its poll"));
                }
                ts[task as usize].last = Last::Yielded;
                cur = None;
            }
            Ev::Blocked { task, chan } => {
                if cur != Some(task) {
                    return Err(format!("log[{pos}]: harness error: outcome of {task} outside its poll"));
                }
                if let Last::Blocked { chan: c0, .. } = ts[task as usize].last {
                    if c0 == chan {
                        s.spurious_poll = true;
                    }
                }
                ts[task as usize].last = Last::Blocked { chan, signals_then: signals[chan as usize] };
                cur = None;
            }
            Ev::JoinBlocked { task, child } => {
                if cur != Some(task) {
                    return Err(format!("log[{pos}]: harness error: outcome of {task} outside its poll"));
                }
                if ts[child as usize].done.is_some() {
                    return Err(format!(
                        "log[{pos}]: Receiver of task {child} polled by task {task} returned Pending although task {child} had completed with {:?} and the value had not been received",
                        ts[child as usize].done
                    ));
                }
                if ts[task as usize].last == (Last::JoinBlocked { child }) {
                    s.spurious_poll = true;
                }
                ts[task as usize].last = Last::JoinBlocked { child };
                relay_reg[child as usize] = Some(task);
                s.join_blocked = true;
                cur = None;
            }
            Ev::Joined { task, child, value } => {
                if cur != Some(task) {
                    return Err(format!("log[{pos}]: harness error: join by {task} outside its poll"));
                }
                let c = &mut ts[child as usize];
                if c.done != Some(value) {
                    return Err(format!("log[{pos}]: Receiver of task {child} yielded {value} but the task's result is {:?}", c.done));
                }
                if c.received {
                    return Err(format!("log[{pos}]: Receiver of task {child} yielded its value a second time"));
                }
                c.received = true;
                s.join = true;
            }
            Ev::Ready { task, value } => {
                if cur != Some(task) {
                    return Err(format!("log[{pos}]: harness error: outcome of {task} outside its poll"));
                }
                let t = &mut ts[task as usize];
                t.done = Some(value);
                if t.pending_wake {
                    // woke itself during its final poll: the queue entry now belongs to a
                    // completed task (same situation as a stale wake)
                    t.pending_wake = false;
                    t.stale_woken = true;
                    s.stale_wake = true;
                    stale_wakes_at.push(pos as u32);
                }
                live -= 1;
                cur = None;
                // Sender::send wakes the waker left by the last Receiver::poll
                if let Some(p) = relay_reg[task as usize].take() {
                    wake(&mut ts, &mut s, None, polls, live, task, p, pos, &mut stale_wakes_at)?;
                }
            }
            Ev::Stall => {
                if let Some(c) = cur {
                    return Err(format!("log[{pos}]: harness error: stall inside the poll of {c}"));
                }
                let mut waiters = false;
                for (i, t) in ts.iter().enumerate() {
                    if t.done.is_some() {
                        continue;
                    }
                    waiters = true;
                    if t.pending_wake {
                        return Err(format!(
                            "log[{pos}]: lost wake-up: the run loop stalled although unfinished task {i} was woken after its last poll began (last outcome {:?})",
                            t.last
                        ));
                    }
                    match t.last {
                        Last::Never | Last::Yielded => {
                            return Err(format!("log[{pos}]: stalled although task {i} is runnable ({:?})", t.last));
                        }
                        Last::Blocked { chan, signals_then } => {
                            if signals[chan as usize] != signals_then {
                                return Err(format!("log[{pos}]: stalled although channel {chan}, on which task {i} waits, was signalled after its last poll"));
                            }
                        }
                        Last::JoinBlocked { child } => {
                            if ts[child as usize].done.is_some() {
                                return Err(format!("log[{pos}]: stalled although task {child}, which task {i} joins, has completed"));
                            }
                        }
                    }
                }
                if waiters {
                    s.stall_with_waiters = true;
                }
                for t in ts.iter_mut() {
                    t.stale_woken = false;
                }
            }
            Ev::PolledAfterReady { task } => {
                return Err(format!("log[{pos}]: the future of task {task} was polled after it returned Ready"));
            }
            Ev::Nested { task, inside } => {
                return Err(format!("log[{pos}]: task {task} polled re-entrantly inside the poll of task {inside}"));
            }
            Ev::BudgetExhausted => {
                return Err(format!("log[{pos}]: more than {POLL_BUDGET} polls: the run does not terminate"));
            }
        }
    }
    s.all_complete = ts.iter().all(|t| t.done.is_some());
    s.tasks = ts.len();
    s.polls = polls;

    // observations made by the driver
    let count = |from: u32, to: u32, f: &dyn Fn(&Ev) -> bool| log[from as usize..to as usize].iter().filter(|e| f(e)).count() as u32;
    if step_mode {
        let mut ghosts_used = 0u32;
        let mut last_stall_pos = 0u32;
        for (i, st) in run.steps.iter().enumerate() {
            let npoll = count(st.from, st.to, &|e| matches!(e, Ev::Poll { .. }));
            let nready = count(st.from, st.to, &|e| matches!(e, Ev::Ready { .. }));
            match st.ret {
                None => {
                    if st.to != st.from {
                        return Err(format!("step #{i} returned None but polled something"));
                    }
                    if st.wc_after != 0 {
                        return Err(format!("step #{i} returned None but wake_count() = {}", st.wc_after));
                    }
                    ghosts_used = 0;
                    last_stall_pos = st.to;
                }
                Some(b) => {
                    if npoll > 1 {
                        return Err(format!("step #{i} polled {npoll} tasks"));
                    }
                    if npoll == 1 && b != (nready == 1) {
                        return Err(format!("step #{i} returned Some({b}) but the polled task {}", if nready == 1 { "completed" } else { "is not complete" }));
                    }
                    if npoll == 0 {
                        // nothing polled: only acceptable for the queue entry of a completed
                        // task that was woken through a stale waker
                        let avail = stale_wakes_at.iter().filter(|&&p| p >= last_stall_pos && p < st.from).count() as u32;
                        if st.to != st.from || avail <= ghosts_used {
                            return Err(format!("step #{i} returned Some({b}) without polling any task and no completed task had been woken"));
                        }
                        if !b {
                            return Err(format!("step #{i} dequeued a completed task but returned Some(false)"));
                        }
                        ghosts_used += 1;
                        s.ghost_step = true;
                    }
                }
            }
        }
    } else {
        for (i, r) in run.runs.iter().enumerate() {
            let nready = count(r.from, r.to, &|e| matches!(e, Ev::Ready { .. }));
            let prev_to = if i > 0 { run.runs[i - 1].to } else { 0 };
            let stale = stale_wakes_at.iter().filter(|&&p| p >= prev_to && p < r.to).count() as u32;
            if r.completed < nready || r.completed > nready + stale {
                return Err(format!(
                    "run_until_stalled #{i} returned {} but {nready} task(s) completed during the call ({stale} wake(s) of completed tasks)",
                    r.completed
                ));
            }
            if r.completed > nready {
                s.ghost_step = true;
            }
        }
    }

    // receivers
    let any_join_blocked = ts.iter().any(|t| t.done.is_none() && matches!(t.last, Last::JoinBlocked { .. }));
    for (i, t) in ts.iter().enumerate() {
        let got = run.rx.get(i).cloned().unwrap_or(RxFinal::NoReceiver);
        match (t.has_rx, got) {
            (false, RxFinal::NoReceiver) => {}
            (true, RxFinal::Seen(a, b, c)) => {
                use TryReceiveError::*;
                match (t.done, t.received) {
                    (Some(v), false) => {
                        if a != Ok(v) {
                            return Err(format!("task {i} completed with {v} and its Receiver was never read, but try_receive returned {a:?}"));
                        }
                        if b != Err(AlreadyReceived) || c != Err(AlreadyReceived) {
                            return Err(format!("Receiver of task {i} after delivering its value: try_receive returned {b:?} then {c:?}, expected Err(AlreadyReceived)"));
                        }
                    }
                    (Some(_), true) => {
                        if a != Err(AlreadyReceived) || b != Err(AlreadyReceived) || c != Err(AlreadyReceived) {
                            return Err(format!("Receiver of task {i} was already read by a join, but try_receive returned {a:?}, {b:?}, {c:?}"));
                        }
                    }
                    (None, _) => {
                        if a != Err(NotSent) || b != Err(NotSent) {
                            return Err(format!("task {i} never completed (and is retained by a waker) but try_receive returned {a:?}, {b:?}"));
                        }
                        // after every waker is gone the task, and with it the Sender, must be gone
                        // ("tasks ... are retained by wakers. This also prevents leaking tasks");
                        // a parent blocked in a join is retained by the Receiver the harness holds
                        if !any_join_blocked && c != Err(SenderDropped) {
                            return Err(format!("task {i} never completed; after all wakers and the executor were dropped try_receive returned {c:?}, expected Err(SenderDropped) (task leaked?)"));
                        }
                    }
                }
            }
            (has, got) => return Err(format!("harness error: task {i} has_rx={has} but final receiver state {got:?}")),
        }
    }
    if let Some(n) = run.notes.first() {
        return Err(n.clone());
    }
    Ok(s)
}

// =============================================================================================
// Oracle 2: pure reference scheduler

struct MTask {
    script: u8,
    pc: usize,
    waiting: Option<(u8, u32)>,
    children: Vec<u16>,
    done: Option<i32>,
    polled: bool,
    has_rx: bool,
    rx_taken: bool,
}

struct Model<'c> {
    case: &'c SysCase,
    tasks: Vec<MTask>,
    queue: VecDeque<u16>,
    chans: Vec<(u32, Vec<u16>)>,
    relay_reg: Vec<Option<u16>>,
    log: Vec<Ev>,
    steps: Vec<(Option<bool>, u8)>,
    runs: Vec<u32>,
}

impl<'c> Model<'c> {
    fn enqueue(&mut self, t: u16) {
        if !self.queue.contains(&t) {
            self.queue.push_back(t);
        }
    }
    fn spawn(&mut self, script: u8, by: u16, pinned: bool) -> Option<u16> {
        if self.tasks.len() >= MAX_TASKS {
            return None;
        }
        let id = self.tasks.len() as u16;
        self.tasks.push(MTask { script, pc: 0, waiting: None, children: vec![], done: None, polled: false, has_rx: !pinned, rx_taken: false });
        self.relay_reg.push(None);
        self.log.push(Ev::Spawned { task: id, script, by, pinned });
        self.queue.push_back(id);
        Some(id)
    }
    fn simple(&mut self, by: u16, by_script: Option<u8>, a: Action) {
        match a {
            Signal(k, twice) => {
                let k = k as usize % NCHAN;
                self.chans[k].0 += 1;
                self.log.push(Ev::Signal { by, chan: k as u8 });
                let ws = std::mem::take(&mut self.chans[k].1);
                for target in ws {
                    for _ in 0..(1 + twice as usize) {
                        self.log.push(Ev::Wake { by, target });
                        self.enqueue(target);
                    }
                }
            }
            WakeTask(j) => {
                if self.tasks.get(j as usize).is_some_and(|t| t.polled) {
                    self.log.push(Ev::Wake { by, target: j as u16 });
                    self.enqueue(j as u16);
                }
            }
            Spawn(c) | SpawnPinned(c) => {
                if spawn_allowed(self.case.scripts.len(), by_script, c) {
                    let pinned = matches!(a, SpawnPinned(_));
                    if let Some(id) = self.spawn(c, by, pinned) {
                        if !pinned && by != EXT {
                            self.tasks[by as usize].children.push(id);
                        }
                    }
                }
            }
            _ => {}
        }
    }
    /// returns true if the task completed
    fn poll(&mut self, t: u16) -> bool {
        let ti = t as usize;
        self.log.push(Ev::Poll { task: t, pc: self.tasks[ti].pc.min(255) as u8, wc: self.queue.len().min(254) as u8 });
        self.tasks[ti].polled = true;
        let script_ix = self.tasks[ti].script;
        loop {
            let pc = self.tasks[ti].pc;
            let a = self.case.scripts[script_ix as usize].get(pc).copied().unwrap_or(Complete(100 + t as i32));
            match a {
                Complete(v) => {
                    self.tasks[ti].done = Some(v);
                    self.log.push(Ev::Ready { task: t, value: v });
                    if let Some(p) = self.relay_reg[ti].take() {
                        self.enqueue(p);
                    }
                    return true;
                }
                Yield => {
                    self.tasks[ti].pc += 1;
                    self.log.push(Ev::Wake { by: t, target: t });
                    self.enqueue(t);
                    self.log.push(Ev::Yielded { task: t });
                    return false;
                }
                Wait(k) => {
                    let k = k as usize % NCHAN;
                    let now = self.chans[k].0;
                    match self.tasks[ti].waiting {
                        Some((_, since)) if now > since => {
                            self.tasks[ti].waiting = None;
                            self.tasks[ti].pc += 1;
                        }
                        _ => {
                            if self.tasks[ti].waiting.is_none() {
                                self.tasks[ti].waiting = Some((k as u8, now));
                            }
                            self.chans[k].1.push(t);
                            self.log.push(Ev::Blocked { task: t, chan: k as u8 });
                            return false;
                        }
                    }
                }
                Join => match self.tasks[ti].children.last().copied() {
                    None => self.tasks[ti].pc += 1,
                    Some(c) => {
                        let ci = c as usize;
                        if let Some(v) = self.tasks[ci].done {
                            self.tasks[ci].rx_taken = true;
                            self.log.push(Ev::Joined { task: t, child: c, value: v });
                            self.tasks[ti].children.pop();
                            self.tasks[ti].pc += 1;
                        } else {
                            self.relay_reg[ci] = Some(t);
                            self.log.push(Ev::JoinBlocked { task: t, child: c });
                            return false;
                        }
                    }
                },
                Signal(..) | WakeTask(_) | Spawn(_) | SpawnPinned(_) => {
                    self.tasks[ti].pc += 1;
                    self.simple(t, Some(script_ix), a);
                }
            }
        }
    }
    fn step(&mut self) -> Option<bool> {
        let t = self.queue.pop_front()?;
        if self.tasks[t as usize].done.is_some() {
            return Some(true);
        }
        Some(self.poll(t))
    }
    fn run(case: &'c SysCase) -> Self {
        let mut m = Model {
            case,
            tasks: vec![],
            queue: VecDeque::new(),
            chans: (0..NCHAN).map(|_| (0, vec![])).collect(),
            relay_reg: vec![],
            log: vec![],
            steps: vec![],
            runs: vec![],
        };
        let initial = (case.initial as usize).min(case.scripts.len());
        for i in 0..initial {
            m.spawn(i as u8, EXT, case.pinned >> i & 1 == 1);
        }
        let mut ext = case.ext.iter();
        loop {
            let mut completed = 0;
            loop {
                let r = m.step();
                m.steps.push((r, m.queue.len().min(254) as u8));
                match r {
                    None => break,
                    Some(true) => completed += 1,
                    Some(false) => {}
                }
            }
            m.runs.push(completed);
            m.log.push(Ev::Stall);
            match ext.next() {
                Some(&a) => m.simple(EXT, None, a),
                None => break,
            }
        }
        m
    }
}

fn first_diff(a: &[Ev], b: &[Ev]) -> String {
    let i = a.iter().zip(b.iter()).position(|(x, y)| x != y).unwrap_or(a.len().min(b.len()));
    let lo = i.saturating_sub(4);
    format!(
        "first difference at event {i}: {:?} vs {:?}; common prefix tail {:?}",
        a.get(i),
        b.get(i),
        &a[lo..i.min(a.len())]
    )
}

// =============================================================================================

fn check_system(c: &SysCase) -> Outcome {
    if c.scripts.is_empty() || c.scripts.len() > 16 || c.initial == 0 {
        return Outcome::skip("degenerate system (no script / no initial task)");
    }
    let scripts = Rc::new(c.scripts.clone());
    let a = run_real(c, &scripts, false);
    let b = run_real(c, &scripts, true);
    let sa = match check_invariants(&a, false) {
        Ok(s) => s,
        Err(e) => return Outcome::fail(format!("[run_until_stalled] {e}")),
    };
    let sb = match check_invariants(&b, true) {
        Ok(s) => s,
        Err(e) => return Outcome::fail(format!("[step loop] {e}")),
    };
    if a.log != b.log {
        return Outcome::fail(format!(
            "run_until_stalled and a loop of step() (documented as equivalent) produced different logs: {}",
            first_diff(&a.log, &b.log)
        ));
    }
    if a.rx != b.rx {
        return Outcome::fail(format!("receivers end differently under run_until_stalled and step(): {:?} vs {:?}", a.rx, b.rx));
    }
    // exact comparison with the FIFO reference scheduler
    let m = Model::run(c);
    if m.log != a.log {
        return Outcome::fail(format!("order differs from the FIFO reference scheduler (reference vs observed): {}", first_diff(&m.log, &a.log)));
    }
    let got_steps: Vec<(Option<bool>, u8)> = b.steps.iter().map(|s| (s.ret, s.wc_after)).collect();
    if m.steps != got_steps {
        let i = m.steps.iter().zip(got_steps.iter()).position(|(x, y)| x != y).unwrap_or(m.steps.len().min(got_steps.len()));
        return Outcome::fail(format!(
            "step() results / wake_count() differ from the FIFO reference scheduler at step #{i}: reference {:?}, observed {:?}",
            m.steps.get(i),
            got_steps.get(i)
        ));
    }
    let got_runs: Vec<u32> = a.runs.iter().map(|r| r.completed).collect();
    if m.runs != got_runs {
        return Outcome::fail(format!("run_until_stalled() returned {got_runs:?}, FIFO reference scheduler says {:?}", m.runs));
    }
    let s = sa;
    let _ = sb;
    Outcome::pass(s.self_wake_during_poll || s.duplicate_wake)
        .class_if(s.self_wake_during_poll, "self-wake-during-poll")
        .class_if(s.duplicate_wake, "duplicate-wake")
        .class_if(s.dynamic_spawn, "spawn")
        .class_if(s.stall_with_waiters, "stall-with-waiters")
        .class_if(s.all_complete, "all-complete")
        .class_if(s.stale_wake, "stale-wake-of-completed-task")
        .class_if(s.ghost_step, "completed-task-dequeued")
        .class_if(s.spurious_poll, "spurious-wake-of-blocked-task")
        .class_if(s.join, "join-received")
        .class_if(s.join_blocked, "join-blocked-then-woken-by-sender")
        .class_if(s.ext_wake, "wake-from-outside-any-poll")
        .class_if(s.tasks >= MAX_TASKS, "task-cap-reached")
}

pub static EXH: Driver<SysCase> = Driver::new("C15", "exhaustive", check_system);
pub static SPAWNJOIN: Driver<SysCase> = Driver::new("C15", "spawn-join", check_system);
pub static STRIDED: Driver<SysCase> = Driver::new("C15", "strided", check_system);
pub static RANDOM: Driver<SysCase> = Driver::new("C15", "random", check_system);

// =============================================================================================
// Enumerations

/// Letters of the main alphabet for script `s` of `n`.
const A_MAIN: u64 = 7;
fn letter_main(s: usize, n: usize, l: u64) -> Action {
    match l {
        0 => Yield,
        1 => Wait(0),
        2 => Wait(1),
        3 => Signal(0, false),
        4 => Signal(1, true),
        5 => WakeTask(0),
        _ => {
            if s + 1 < n {
                Spawn(s as u8 + 1)
            } else {
                Signal(0, true)
            }
        }
    }
}

/// Number of scripts of length <= maxlen over an alphabet of `a` letters.
fn nscripts(a: u64, maxlen: u32) -> u64 {
    (0..=maxlen).map(|l| a.pow(l)).sum()
}

/// The j-th script (shorter scripts first).
fn nth_script(a: u64, maxlen: u32, mut j: u64, letter: &dyn Fn(u64) -> Action) -> Vec<Action> {
    for l in 0..=maxlen {
        let n = a.pow(l);
        if j < n {
            let mut v = Vec::with_capacity(l as usize);
            for _ in 0..l {
                v.push(letter(j % a));
                j /= a;
            }
            return v;
        }
        j -= n;
    }
    unreachable!()
}

fn ext_std() -> Vec<Action> {
    vec![Signal(0, false), Signal(1, true)]
}

/// System `i` of the space of exactly `n` tasks with scripts of length <= maxlen over the first
/// `letters` letters of the main alphabet.
fn nth_system(n: usize, letters: u64, maxlen: u32, mut i: u64) -> SysCase {
    let s = nscripts(letters, maxlen);
    let mut scripts = Vec::with_capacity(n);
    for t in 0..n {
        let j = i % s;
        i /= s;
        scripts.push(nth_script(letters, maxlen, j, &|l| letter_main(t, n, l)));
    }
    SysCase { scripts, initial: n as u8, pinned: 0b10, ext: ext_std() }
}

const A_PARENT: u64 = 8;
const A_CHILD: u64 = 5;
fn letter_parent(l: u64) -> Action {
    match l {
        0 => Yield,
        1 => Wait(0),
        2 => Signal(0, false),
        3 => Signal(0, true),
        4 => WakeTask(1),
        5 => Spawn(1),
        6 => SpawnPinned(1),
        _ => Join,
    }
}
fn letter_child(l: u64) -> Action {
    match l {
        0 => Yield,
        1 => Wait(0),
        2 => Signal(0, false),
        3 => WakeTask(0),
        _ => Complete(7),
    }
}

fn nth_spawnjoin(i: u64, plen: u32, clen: u32) -> SysCase {
    let sp = nscripts(A_PARENT, plen);
    let parent = nth_script(A_PARENT, plen, i % sp, &letter_parent);
    let child = nth_script(A_CHILD, clen, i / sp, &letter_child);
    SysCase { scripts: vec![parent, child], initial: 1, pinned: 0, ext: vec![Signal(0, false)] }
}

// =============================================================================================
// Random systems

#[derive(Clone, Copy, Debug)]
enum Raw {
    A(Action),
    SpawnRel(u8, bool),
}

fn arb_raw() -> impl Strategy<Value = Raw> {
    prop_oneof![
        5 => Just(Raw::A(Yield)),
        4 => (0u8..NCHAN as u8).prop_map(|k| Raw::A(Wait(k))),
        5 => (0u8..NCHAN as u8, any::<bool>()).prop_map(|(k, t)| Raw::A(Signal(k, t))),
        3 => (0u8..12).prop_map(|j| Raw::A(WakeTask(j))),
        3 => (0u8..8, prop::bool::weighted(0.25)).prop_map(|(d, p)| Raw::SpawnRel(d, p)),
        2 => Just(Raw::A(Join)),
        1 => (-3i32..4).prop_map(|v| Raw::A(Complete(v))),
    ]
}

fn arb_ext() -> impl Strategy<Value = Action> {
    prop_oneof![
        4 => (0u8..NCHAN as u8, any::<bool>()).prop_map(|(k, t)| Signal(k, t)),
        2 => (0u8..12).prop_map(WakeTask),
        1 => (0u8..8).prop_map(Spawn),
    ]
}

pub fn arb_system() -> impl Strategy<Value = SysCase> {
    (
        proptest::collection::vec(proptest::collection::vec(arb_raw(), 0..=10), 1..=8),
        any::<u16>(),
        any::<u8>(),
        proptest::collection::vec(arb_ext(), 0..=3),
    )
        .prop_map(|(raw, init, pinned, ext)| {
            let n = raw.len();
            let scripts = raw
                .iter()
                .enumerate()
                .map(|(s, r)| {
                    r.iter()
                        .map(|x| match *x {
                            Raw::A(a) => a,
                            Raw::SpawnRel(d, p) => {
                                // a later script if there is one (keeps spawning well-founded)
                                let c = if s + 1 < n { (s + 1 + d as usize % (n - s - 1)) as u8 } else { n as u8 };
                                if p { SpawnPinned(c) } else { Spawn(c) }
                            }
                        })
                        .collect()
                })
                .collect();
            SysCase { scripts, initial: 1 + pick_idx(init, n) as u8, pinned, ext }
        })
}


// =============================================================================================
// Receiver handed from task to task: the result goes, exactly once, to whoever polled last

/// Several consumer tasks share one `Receiver`. `polls[k]` names the consumer that polls it at
/// turn k (a consumer polls the receiver only at its turns, and again when it is woken while it is
/// the most recent one to have been told "pending" - exactly what a task does that was handed the
/// receiver and awaits it). The producer completes after `release_after` turns (its own task,
/// released from outside, finishing after `producer_yields` self-wakes).
#[derive(Clone, Debug, PartialEq, Eq, Hash, Serialize, Deserialize)]
pub struct HandCase {
    pub polls: Vec<u8>,
    pub release_after: u8,
    pub producer_yields: u8,
    pub step_mode: bool,
}

struct HWorld {
    rx: Option<Receiver<i32>>,
    turns: Vec<u32>,
    wakers: Vec<Option<Waker>>,
    last_pending: Option<usize>,
    got: Vec<(usize, i32)>,
    released: bool,
    prod_waker: Option<Waker>,
    rx_polls: u32,
}

fn check_hand(c: &HandCase) -> Outcome {
    let ncons = 1 + c.polls.iter().copied().max().unwrap_or(0) as usize;
    let exec = Executor::new();
    let w = Rc::new(RefCell::new(HWorld { rx: None, turns: vec![0; ncons], wakers: vec![None; ncons], last_pending: None, got: vec![], released: false, prod_waker: None, rx_polls: 0 }));
    // producer
    let rx = {
        let w = w.clone();
        let mut yields = c.producer_yields;
        // (safety: wakers never leave this thread)
        let fut = std::future::poll_fn(move |cx: &mut Context<'_>| {
            if !w.borrow().released {
                w.borrow_mut().prod_waker = Some(cx.waker().clone());
                return Poll::Pending;
            }
            if yields > 0 {
                yields -= 1;
                cx.waker().wake_by_ref();
                return Poll::Pending;
            }
            Poll::Ready(42)
        });
        unsafe { exec.spawn(fut) }
    };
    w.borrow_mut().rx = Some(rx);
    // consumers
    for i in 0..ncons {
        let w = w.clone();
        let mut finished = false;
        let fut = std::future::poll_fn(move |cx: &mut Context<'_>| {
            if finished {
                return Poll::Ready(());
            }
            let mut wb = w.borrow_mut();
            wb.wakers[i] = Some(cx.waker().clone());
            let my_turn = wb.turns[i] > 0;
            if my_turn {
                wb.turns[i] -= 1;
            }
            if !(my_turn || wb.last_pending == Some(i)) {
                return Poll::Pending;
            }
            let Some(mut rx) = wb.rx.take() else { return Poll::Pending };
            wb.rx_polls += 1;
            drop(wb);
            let r = Pin::new(&mut rx).poll(cx);
            let mut wb = w.borrow_mut();
            match r {
                Poll::Ready(v) => {
                    // the receiver is spent; keep it away from further polls
                    wb.got.push((i, v));
                    wb.last_pending = None;
                    finished = true;
                    Poll::Ready(())
                }
                Poll::Pending => {
                    wb.rx = Some(rx);
                    wb.last_pending = Some(i);
                    Poll::Pending
                }
            }
        });
        unsafe { exec.spawn_pinned(Box::pin(fut)) };
    }
    let run = |exec: &Executor| {
        if c.step_mode {
            let mut n = 0;
            while exec.step().is_some() {
                n += 1;
                if n > 10_000 {
                    return false;
                }
            }
            true
        } else {
            exec.run_until_stalled();
            true
        }
    };
    let ctx = |m: String, w: &HWorld| format!("{m}; case {c:?}; deliveries {:?}, receiver polled {} times", w.got, w.rx_polls);
    if !run(&exec) {
        return Outcome::fail(ctx("the step loop does not terminate".into(), &w.borrow()));
    }
    let release = |w: &Rc<RefCell<HWorld>>| {
        let pw = {
            let mut wb = w.borrow_mut();
            wb.released = true;
            wb.prod_waker.take()
        };
        if let Some(pw) = pw {
            pw.wake();
        }
    };
    let mut released = false;
    let mut expected: Option<usize> = None; // who must end up with the value
    let mut last_registered: Option<usize> = None;
    for (k, &p) in c.polls.iter().enumerate() {
        if !released && k as u8 >= c.release_after {
            release(&w);
            released = true;
            if !run(&exec) {
                return Outcome::fail(ctx("the step loop does not terminate".into(), &w.borrow()));
            }
            // the value exists now: the consumer that polled last (if any) has been woken
            if expected.is_none() {
                expected = last_registered;
            }
        }
        let p = p as usize;
        let waker = {
            let mut wb = w.borrow_mut();
            wb.turns[p] += 1;
            wb.wakers[p].clone()
        };
        if let Some(wk) = waker {
            wk.wake();
        }
        if !run(&exec) {
            return Outcome::fail(ctx("the step loop does not terminate".into(), &w.borrow()));
        }
        if expected.is_none() {
            if released {
                // first poll after the value exists gets it, unless an earlier delivery happened
                expected = Some(p);
            } else {
                last_registered = Some(p);
            }
        }
    }
    if !released {
        release(&w);
        if !run(&exec) {
            return Outcome::fail(ctx("the step loop does not terminate".into(), &w.borrow()));
        }
        expected = last_registered;
    }
    let wb = w.borrow();
    let want: Vec<(usize, i32)> = expected.map(|e| (e, 42)).into_iter().collect();
    if wb.got != want {
        return Outcome::fail(ctx(
            format!(
                "the producer completed with 42; the value must be delivered exactly once, to consumer {expected:?} (the task that polled the Receiver last before the value existed is woken; otherwise the first task to poll afterwards)"
            ),
            &wb,
        ));
    }
    if exec.wake_count() != 0 {
        return Outcome::fail(ctx(format!("wake_count() = {} after the run stalled", exec.wake_count()), &wb));
    }
    let handed_over = c.polls.len() >= 2 && c.polls.windows(2).any(|p| p[0] != p[1]);
    Outcome::pass(handed_over)
        .class_if(handed_over, "receiver-polled-by-different-tasks")
        .class_if(c.release_after as usize >= c.polls.len(), "value-computed-after-the-last-poll")
        .class_if(c.step_mode, "step-loop")
}

pub static HAND: Driver<HandCase> = Driver::new("C15", "receiver-handover", check_hand);

// =============================================================================================

pub fn run(ctx: &Ctx, st: &mut Stats) {
    // hand-written regression-style cases: the situations named in the property statement
    let named = vec![
        // self-rewaking task next to a waiter that is signalled late
        SysCase { scripts: vec![vec![Yield, Yield, Yield, Signal(0, true)], vec![Wait(0)], vec![Yield, WakeTask(1)]], initial: 3, pinned: 0, ext: vec![] },
        // stale waker of a completed task
        SysCase { scripts: vec![vec![Yield], vec![Yield, Yield, WakeTask(0), WakeTask(0), Yield]], initial: 2, pinned: 0b01, ext: vec![WakeTask(0)] },
        // parent joins a child that completes later / earlier
        SysCase { scripts: vec![vec![Spawn(1), Join, Spawn(1), Yield, Yield, Join], vec![Yield]], initial: 1, pinned: 0, ext: vec![] },
    ];
    RANDOM.run_list(st, &named);

    // (1) exhaustive: <= 3 tasks x <= 3 actions
    //     1 and 2 tasks: all 7 letters; 3 tasks: 6 letters (quick; the 7th letter, spawn-next /
    //     signal-0-twice, costs 64 M systems and is left to the thorough tier)
    let len3 = 3;
    let letters3 = ctx.tier.pick(A_MAIN - 1, A_MAIN);
    let s7 = nscripts(A_MAIN, len3);
    let s3 = nscripts(letters3, len3);
    let sizes = [s7, s7 * s7, s3 * s3 * s3];
    let total: u64 = sizes.iter().sum();
    let decode = move |mut i: u64| -> Option<SysCase> {
        for (n, sz) in sizes.iter().enumerate() {
            if i < *sz {
                return Some(nth_system(n + 1, if n == 2 { letters3 } else { A_MAIN }, len3, i));
            }
            i -= sz;
        }
        None
    };
    EXH.run_exhaustive(ctx, st, total, &decode);
    st.extra.insert(
        "exhaustive_space".into(),
        serde_json::json!({"tasks": "1..=3", "max_actions": len3, "letters_for_1_and_2_tasks": A_MAIN, "letters_for_3_tasks": letters3, "channels": 2,
            "systems": {"1": sizes[0], "2": sizes[1], "3": sizes[2]},
            "external_actions_after_each_stall": "Signal(0,once), Signal(1,twice)", "second_initial_task": "spawn_pinned"}),
    );

    // (2) exhaustive: parent x child with spawn / join
    let (plen, clen) = ctx.tier.pick((4, 3), (5, 4));
    let total_sj = nscripts(A_PARENT, plen) * nscripts(A_CHILD, clen);
    SPAWNJOIN.run_exhaustive(ctx, st, total_sj, &move |i| Some(nth_spawnjoin(i, plen, clen)));
    st.extra.insert(
        "spawn_join_space".into(),
        serde_json::json!({"parent_max_actions": plen, "parent_letters": A_PARENT, "child_max_actions": clen, "child_letters": A_CHILD, "systems": total_sj}),
    );

    // (3) thorough only: strided walk over 4 tasks x <= 4 actions (the full space is ~6e13)
    if ctx.tier == Tier::Thorough {
        let len4 = 4;
        let s4 = nscripts(A_MAIN, len4);
        let space = s4 * s4 * s4 * s4;
        let stride: u64 = 200_003; // prime, coprime to the radix 2801
        let offset = ctx.seed % stride;
        let n = (space - offset).div_ceil(stride);
        STRIDED.run_exhaustive(ctx, st, n, &move |i| Some(nth_system(4, A_MAIN, len4, offset + i * stride)));
        // a strided walk is not exhaustive
        st.exhaustive_drivers.retain(|d| d != "strided");
        st.extra.insert(
            "strided_space".into(),
            serde_json::json!({"tasks": 4, "max_actions": len4, "letters": A_MAIN, "systems_in_space": space, "stride": stride, "offset": offset, "systems_visited": n,
                "note": "not exhaustive: every stride-th index of the mixed-radix enumeration"}),
        );
    }

    // (4) random larger systems
    let n = ctx.tier.pick(200_000, 10_000_000);
    RANDOM.run_random(ctx, st, n, arb_system);

    // (5) exhaustive: a Receiver polled by up to 3 tasks in every order of <= 5 turns, the value
    //     computed after every prefix, producer finishing at once or after self-wakes, both run modes
    let seqs: Vec<Vec<u8>> = {
        let mut v = vec![];
        for len in 1..=5u32 {
            for mut k in 0..3u64.pow(len) {
                let mut q = vec![];
                for _ in 0..len {
                    q.push((k % 3) as u8);
                    k /= 3;
                }
                v.push(q);
            }
        }
        v
    };
    let mut hand_cases = vec![];
    for q in &seqs {
        for rel in 0..=q.len() as u8 {
            for py in 0..2u8 {
                for step_mode in [false, true] {
                    hand_cases.push(HandCase { polls: q.clone(), release_after: rel, producer_yields: py, step_mode });
                }
            }
        }
    }
    let total_h = hand_cases.len() as u64;
    HAND.run_exhaustive(ctx, st, total_h, &move |i| hand_cases.get(i as usize).cloned());
    st.extra.insert("receiver_handover_space".into(), serde_json::json!({"consumers": "1..=3", "turns": "1..=5", "cases": total_h}));
}

pub fn replay(driver: &str, case: &serde_json::Value) -> Result<(Outcome, Option<&'static str>), String> {
    match driver {
        "exhaustive" => EXH.replay_known(case),
        "spawn-join" => SPAWNJOIN.replay_known(case),
        "strided" => STRIDED.replay_known(case),
        "random" => RANDOM.replay_known(case),
        "receiver-handover" => HAND.replay_known(case),
        _ => Err(format!("unknown driver {driver}")),
    }
}
