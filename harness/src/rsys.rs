//! Real-OS runner: re-executes this binary (`vcheck __real <case.json>`) in a scratch directory;
//! the child builds `Env<Rc<Concurrent<RealSystem>>>`, runs the same generic shell main and probe
//! built-ins, and exits through `exit_or_raise`.

use crate::probes;
use crate::sys::shell_main;
use crate::vsys::FileSpec;
use serde::{Deserialize, Serialize};
use std::collections::BTreeMap;
use std::os::unix::fs::PermissionsExt;
use std::os::unix::process::ExitStatusExt;
use std::rc::Rc;

#[derive(Clone, Debug, Serialize, Deserialize)]
pub struct RealCase {
    pub argv: Vec<String>,
    pub env_vars: Vec<(String, String)>,
}

#[derive(Clone, Debug, PartialEq, Eq, serde::Serialize)]
pub enum Entry {
    File { mode: u32, content: Vec<u8> },
    Dir,
    Symlink { target: String },
}

pub struct RealResult {
    pub stdout: String,
    pub stderr: String,
    /// exit code, or 384 + signal number when killed by a signal (the shell's own convention)
    pub status: i32,
    pub tree: BTreeMap<String, Entry>,
    /// the run was stopped by the stall detector: for STALL_SECS seconds every process of the
    /// script's process group was asleep and none of them used any CPU time (see `wait_or_stall`)
    pub stalled: bool,
}

/// Seconds of complete inactivity (all processes sleeping, CPU time constant) after which a real
/// run is declared deadlocked. The scripts contain no sleeps, timers or external input, so a
/// process group in which nobody is runnable can never make progress again; load on the machine
/// shows up as runnable (R) or uninterruptible (D) processes, never as this state.
pub const STALL_SECS: u64 = 10;

/// (all asleep, total CPU ticks) of the processes in process group `pgid`.
fn group_activity(pgid: i32) -> Option<(bool, u64)> {
    group_activity_ex(pgid, true)
}

/// `count_zombies`: whether terminated but unreaped members count as members.
fn group_activity_ex(pgid: i32, count_zombies: bool) -> Option<(bool, u64)> {
    let mut all_asleep = true;
    let mut ticks = 0u64;
    let mut seen = false;
    for e in std::fs::read_dir("/proc").ok()?.flatten() {
        let name = e.file_name();
        let Some(pid) = name.to_str().and_then(|s| s.parse::<i32>().ok()) else { continue };
        let Ok(stat) = std::fs::read_to_string(format!("/proc/{pid}/stat")) else { continue };
        // pid (comm) state ppid pgrp session tty tpgid flags minflt cminflt majflt cmajflt utime stime
        let Some(rest) = stat.rfind(')').map(|i| &stat[i + 1..]) else { continue };
        let f: Vec<&str> = rest.split_whitespace().collect();
        if f.len() < 13 || f[2].parse::<i32>().ok() != Some(pgid) {
            continue;
        }
        if !count_zombies && matches!(f[0], "Z" | "X") {
            continue;
        }
        seen = true;
        if !matches!(f[0], "S" | "Z" | "X") {
            all_asleep = false;
        }
        ticks += f[11].parse::<u64>().unwrap_or(0) + f[12].parse::<u64>().unwrap_or(0);
    }
    seen.then_some((all_asleep, ticks))
}

/// Waits for `child` (leader of its own process group). Returns None when the stall detector
/// fired (the group has been killed).
fn wait_or_stall(child: &mut std::process::Child) -> Option<std::process::ExitStatus> {
    let pgid = child.id() as i32;
    let start = std::time::Instant::now();
    let mut quiet_since: Option<(std::time::Instant, u64)> = None;
    let mut leader: Option<std::process::ExitStatus> = None;
    loop {
        if leader.is_none() {
            if let Ok(Some(st)) = child.try_wait() {
                leader = Some(st);
            }
        }
        if let Some(st) = leader {
            // The shell itself has ended; processes it started (an asynchronous list, a subshell
            // that killed its parent) may still be writing: the run is over when the whole
            // process group is gone, so that output and files are read only when complete.
            if group_activity_ex(pgid, false).is_none() {
                return Some(st);
            }
        }
        let el = start.elapsed();
        std::thread::sleep(std::time::Duration::from_millis(if el.as_millis() < 200 { 2 } else { 50 }));
        if el.as_secs() < 3 {
            continue;
        }
        match group_activity(pgid) {
            Some((true, ticks)) => match quiet_since {
                Some((t0, k0)) if k0 == ticks => {
                    if t0.elapsed().as_secs() >= STALL_SECS {
                        unsafe { libc::kill(-pgid, libc::SIGKILL) };
                        let _ = child.wait();
                        if leader.is_some() {
                            // only left-over descendants were stuck (e.g. a background reader of
                            // an inherited descriptor): the shell's own result stands
                            return leader;
                        }
                        return None;
                    }
                }
                _ => quiet_since = Some((std::time::Instant::now(), ticks)),
            },
            _ => quiet_since = None,
        }
    }
}

/// Child side. Never returns.
pub fn child_main(case_path: &str) -> ! {
    let text = std::fs::read_to_string(case_path).expect("case file");
    let case: RealCase = serde_json::from_str(&text).expect("case json");
    use yash_env::system::{Concurrent, Disposition, Sigaction as _, Signals as _};
    // SAFETY: the only RealSystem instance in this process
    let system = unsafe { yash_env::RealSystem::new() };
    system.sigaction(yash_env::RealSystem::SIGPIPE, Disposition::Default).ok();
    let system = Rc::new(Concurrent::new(system));
    let runner = Rc::clone(&system);
    let task = async {
        let mut env = yash_env::Env::with_system(system);
        shell_main(&mut env, &case.argv, &case.env_vars, &|env| probes::register(env)).await;
        yash_env::semantics::exit_or_raise(&env.system, env.exit_status).await
    };
    runner.run_real(task)
}

fn walk(dir: &std::path::Path, prefix: &str, out: &mut BTreeMap<String, Entry>) {
    let Ok(rd) = std::fs::read_dir(dir) else { return };
    for e in rd.flatten() {
        let name = e.file_name().to_string_lossy().into_owned();
        let rel = if prefix.is_empty() { name.clone() } else { format!("{prefix}/{name}") };
        let Ok(meta) = std::fs::symlink_metadata(e.path()) else { continue };
        if meta.file_type().is_symlink() {
            let target = std::fs::read_link(e.path()).map(|p| p.to_string_lossy().into_owned()).unwrap_or_default();
            out.insert(rel, Entry::Symlink { target });
        } else if meta.is_dir() {
            out.insert(rel.clone(), Entry::Dir);
            walk(&e.path(), &rel, out);
        } else {
            let content = std::fs::read(e.path()).unwrap_or_default();
            out.insert(rel, Entry::File { mode: meta.permissions().mode() & 0o777, content });
        }
    }
}

/// Runs `script` with the project's real entry point `yash_cli::main` (argument parsing, the
/// real glue of `run_as_shell_process`, RealSystem) in a scratch directory. No probe built-ins.
pub fn run_yash3(script: &str, files: &[(String, FileSpec)]) -> Result<RealResult, String> {
    run_impl(script, files, true)
}

pub fn run(script: &str, files: &[(String, FileSpec)]) -> Result<RealResult, String> {
    run_impl(script, files, false)
}

fn run_impl(script: &str, files: &[(String, FileSpec)], yash3: bool) -> Result<RealResult, String> {
    let dir = tempfile::Builder::new().prefix("vcheck-real-").tempdir().map_err(|e| e.to_string())?;
    let work = dir.path().join("top").join("work");
    std::fs::create_dir_all(&work).map_err(|e| e.to_string())?;
    for (path, spec) in files {
        let p = work.join(path);
        if let Some(parent) = p.parent() {
            std::fs::create_dir_all(parent).ok();
        }
        match spec {
            FileSpec::Regular { content, mode, .. } => {
                std::fs::write(&p, content).map_err(|e| e.to_string())?;
                std::fs::set_permissions(&p, std::fs::Permissions::from_mode(*mode)).ok();
            }
            FileSpec::Bytes { content, mode } => {
                std::fs::write(&p, content).map_err(|e| e.to_string())?;
                std::fs::set_permissions(&p, std::fs::Permissions::from_mode(*mode)).ok();
            }
            FileSpec::Dir { mode } => {
                std::fs::create_dir_all(&p).ok();
                std::fs::set_permissions(&p, std::fs::Permissions::from_mode(*mode)).ok();
            }
            FileSpec::Symlink { target } => {
                std::os::unix::fs::symlink(target, &p).map_err(|e| e.to_string())?;
            }
            FileSpec::Fifo { .. } => return Err("named pipes are not used on the real side".into()),
        }
    }
    let case = RealCase {
        argv: vec!["yash".into(), "-c".into(), script.into()],
        env_vars: vec![("PATH".into(), "/usr/bin:/bin".into())],
    };
    let case_path = dir.path().join("case.json");
    std::fs::write(&case_path, serde_json::to_string(&case).unwrap()).map_err(|e| e.to_string())?;
    let exe = std::env::current_exe().map_err(|e| e.to_string())?;
    let mut cmd = std::process::Command::new(exe);
    if yash3 {
        use std::os::unix::process::CommandExt as _;
        cmd.arg0("yash3").arg("-c").arg(script).env_clear().env("VCHECK_AS_YASH3", "1").env("PATH", "/usr/bin:/bin");
    } else {
        cmd.arg("__real").arg(&case_path).env_clear();
    }
    {
        use std::os::unix::process::CommandExt as _;
        cmd.process_group(0);
        // The shell must start with default dispositions whatever this process inherited (a
        // harness started as a background job of a non-interactive shell has SIGINT and SIGQUIT
        // ignored, which would make every "ignored on entry" rule apply to the real side only).
        unsafe {
            cmd.pre_exec(|| {
                for sig in 1..32 {
                    if sig != libc::SIGKILL && sig != libc::SIGSTOP {
                        libc::signal(sig, libc::SIG_DFL);
                    }
                }
                // a fixed descriptor limit, whatever the sandbox grants (C02/C10 rely on 300 being
                // an invalid descriptor number; no C19 statement goes beyond 21)
                let lim = libc::rlimit { rlim_cur: 256, rlim_max: 256 };
                libc::setrlimit(libc::RLIMIT_NOFILE, &lim);
                let mut set: libc::sigset_t = std::mem::zeroed();
                libc::sigemptyset(&mut set);
                libc::sigprocmask(libc::SIG_SETMASK, &set, std::ptr::null_mut());
                Ok(())
            });
        }
    }
    // output goes to files (no reader threads, no pipe-capacity interference)
    let so_path = dir.path().join("stdout");
    let se_path = dir.path().join("stderr");
    let so = std::fs::File::create(&so_path).map_err(|e| e.to_string())?;
    let se = std::fs::File::create(&se_path).map_err(|e| e.to_string())?;
    let mut child = cmd.current_dir(&work).stdin(std::process::Stdio::null()).stdout(so).stderr(se).spawn().map_err(|e| e.to_string())?;
    let waited = wait_or_stall(&mut child);
    struct Out {
        stdout: Vec<u8>,
        stderr: Vec<u8>,
    }
    let out = Out { stdout: std::fs::read(&so_path).unwrap_or_default(), stderr: std::fs::read(&se_path).unwrap_or_default() };
    let stalled = waited.is_none();
    let status = match waited.map(|w| (w.code(), w.signal())) {
        Some((Some(c), _)) => c,
        Some((None, Some(s))) => 384 + s,
        _ => -1,
    };
    let mut tree = BTreeMap::new();
    walk(&work, "", &mut tree);
    Ok(RealResult {
        stdout: String::from_utf8_lossy(&out.stdout).into_owned(),
        stderr: String::from_utf8_lossy(&out.stderr).into_owned(),
        status,
        tree,
        stalled,
    })
}
