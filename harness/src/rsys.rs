//! Real-OS runner: re-executes this binary (`vcheck __real <case.json>`) in a scratch directory;
//! the child builds `Env<Rc<Concurrent<RealSystem>>>`, runs the same generic shell main and probe
//! built-ins, and exits through `exit_or_raise`.

use crate::probes;
use crate::sys::shell_main;
use crate::vsys::FileSpec;
use serde::{Deserialize, Serialize};
use std::collections::BTreeMap;
use std::os::unix::fs::PermissionsExt;
use std::os::unix::process::ExitStatusExt;
use std::rc::Rc;

#[derive(Clone, Debug, Serialize, Deserialize)]
pub struct RealCase {
    pub argv: Vec<String>,
    pub env_vars: Vec<(String, String)>,
}

#[derive(Clone, Debug, PartialEq, Eq, serde::Serialize)]
pub enum Entry {
    File { mode: u32, content: Vec<u8> },
    Dir,
    Symlink { target: String },
}

pub struct RealResult {
    pub stdout: String,
    pub stderr: String,
    /// exit code, or 384 + signal number when killed by a signal (the shell's own convention)
    pub status: i32,
    pub tree: BTreeMap<String, Entry>,
}

/// Child side. Never returns.
pub fn child_main(case_path: &str) -> ! {
    let text = std::fs::read_to_string(case_path).expect("case file");
    let case: RealCase = serde_json::from_str(&text).expect("case json");
    use yash_env::system::{Concurrent, Disposition, Sigaction as _, Signals as _};
    // SAFETY: the only RealSystem instance in this process
    let system = unsafe { yash_env::RealSystem::new() };
    system.sigaction(yash_env::RealSystem::SIGPIPE, Disposition::Default).ok();
    let system = Rc::new(Concurrent::new(system));
    let runner = Rc::clone(&system);
    let task = async {
        let mut env = yash_env::Env::with_system(system);
        shell_main(&mut env, &case.argv, &case.env_vars, &|env| probes::register(env)).await;
        yash_env::semantics::exit_or_raise(&env.system, env.exit_status).await
    };
    runner.run_real(task)
}

fn walk(dir: &std::path::Path, prefix: &str, out: &mut BTreeMap<String, Entry>) {
    let Ok(rd) = std::fs::read_dir(dir) else { return };
    for e in rd.flatten() {
        let name = e.file_name().to_string_lossy().into_owned();
        let rel = if prefix.is_empty() { name.clone() } else { format!("{prefix}/{name}") };
        let Ok(meta) = std::fs::symlink_metadata(e.path()) else { continue };
        if meta.file_type().is_symlink() {
            let target = std::fs::read_link(e.path()).map(|p| p.to_string_lossy().into_owned()).unwrap_or_default();
            out.insert(rel, Entry::Symlink { target });
        } else if meta.is_dir() {
            out.insert(rel.clone(), Entry::Dir);
            walk(&e.path(), &rel, out);
        } else {
            let content = std::fs::read(e.path()).unwrap_or_default();
            out.insert(rel, Entry::File { mode: meta.permissions().mode() & 0o777, content });
        }
    }
}

/// Runs `script` with the project's real entry point `yash_cli::main` (argument parsing, the
/// real glue of `run_as_shell_process`, RealSystem) in a scratch directory. No probe built-ins.
pub fn run_yash3(script: &str, files: &[(String, FileSpec)]) -> Result<RealResult, String> {
    run_impl(script, files, true)
}

pub fn run(script: &str, files: &[(String, FileSpec)]) -> Result<RealResult, String> {
    run_impl(script, files, false)
}

fn run_impl(script: &str, files: &[(String, FileSpec)], yash3: bool) -> Result<RealResult, String> {
    let dir = tempfile::Builder::new().prefix("vcheck-real-").tempdir().map_err(|e| e.to_string())?;
    let work = dir.path().join("top").join("work");
    std::fs::create_dir_all(&work).map_err(|e| e.to_string())?;
    for (path, spec) in files {
        let p = work.join(path);
        if let Some(parent) = p.parent() {
            std::fs::create_dir_all(parent).ok();
        }
        match spec {
            FileSpec::Regular { content, mode, .. } => {
                std::fs::write(&p, content).map_err(|e| e.to_string())?;
                std::fs::set_permissions(&p, std::fs::Permissions::from_mode(*mode)).ok();
            }
            FileSpec::Dir { mode } => {
                std::fs::create_dir_all(&p).ok();
                std::fs::set_permissions(&p, std::fs::Permissions::from_mode(*mode)).ok();
            }
            FileSpec::Symlink { target } => {
                std::os::unix::fs::symlink(target, &p).map_err(|e| e.to_string())?;
            }
        }
    }
    let case = RealCase {
        argv: vec!["yash".into(), "-c".into(), script.into()],
        env_vars: vec![("PATH".into(), "/usr/bin:/bin".into())],
    };
    let case_path = dir.path().join("case.json");
    std::fs::write(&case_path, serde_json::to_string(&case).unwrap()).map_err(|e| e.to_string())?;
    let exe = std::env::current_exe().map_err(|e| e.to_string())?;
    let mut cmd = std::process::Command::new(exe);
    if yash3 {
        use std::os::unix::process::CommandExt as _;
        cmd.arg0("yash3").arg("-c").arg(script).env_clear().env("VCHECK_AS_YASH3", "1").env("PATH", "/usr/bin:/bin");
    } else {
        cmd.arg("__real").arg(&case_path).env_clear();
    }
    let out = cmd.current_dir(&work).stdin(std::process::Stdio::null()).output().map_err(|e| e.to_string())?;
    let status = match (out.status.code(), out.status.signal()) {
        (Some(c), _) => c,
        (None, Some(s)) => 384 + s,
        _ => -1,
    };
    let mut tree = BTreeMap::new();
    walk(&work, "", &mut tree);
    Ok(RealResult {
        stdout: String::from_utf8_lossy(&out.stdout).into_owned(),
        stderr: String::from_utf8_lossy(&out.stderr).into_owned(),
        status,
        tree,
    })
}
