#!/usr/bin/env python3
"""Generates /verif/MANIFEST.json from the table below and validates it against the schema."""
import json, sys, os

CHECKS = {
 "C01": dict(
    technique="property-based testing: exhaustive small-word enumeration + proptest word ASTs run through the real shell on the simulated OS, compared with an independent reference expander (POSIX XCU 2.6) incl. `read` splitting",
    text="Exploration: every word of <=2 units from a 99-unit alphabet x 24 states x 6 IFS values (quick: singles complete, pairs strided; thorough: complete) and random words of <=6 units with nested modifier words, command substitutions and arithmetic expansions (quoted and not, also in modifier words and patterns), random states and IFS (incl. digits as separators); each rendered, lexed and expanded by the real shell; fields received by a probe built-in, side effects of ${x=w}, and error behaviour compared with a reference expander; `read` splitting against a reference splitter. Bounded search, not a proof.",
    note="Trusted: the reference expander/splitter in harness/src/model/expand.rs. POSIX-unspecified corners are skipped and counted (listed in the evidence).",
    design="4/C01"),
 "C02": dict(
    technique="property-based testing: proptest-generated programs (repaired to valid terminating ones, two surface renderings) run on the virtual shell vs a reference big-step interpreter; per-process probe traces and final status compared",
    text="Exploration: random programs of the core command language incl. command-search probes, assignment-only commands, commands whose words expand to nothing, aliases in command position and `return` inside subshells of a function; a second driver runs the same programs through the real yash3 start-up code (re-executed harness binary) on the real OS; exact (probe id, $?) sequence of the main process, multiset of child-process sequences and final status must equal the reference interpreter's, under the canonical and a varied surface rendering. Bounded random search with shrinking. Case subjects may contain a failing command substitution (a case command that runs no item still yields zero); shells may be started with -m.",
    note="Trusted: the reference interpreter harness/src/model/interp.rs and its renderer. Only uses of break/continue/return that POSIX defines are generated.",
    design="4/C02"),
 "C05": dict(
    technique="property-based testing: exhaustive (fixed trees x all patterns of <=2 components) + proptest (tree, word) pairs on the virtual file system against an independent glob model built on the reference pattern matcher",
    text="Exploration: 4-6 fixed trees x every pattern of <=2 components over a 26-54 component alphabet, plus 150k (quick) / 5M (thorough) random (tree, word) pairs with symlinks, unsearchable directories, metacharacter and backslash names, quoted segments, parts from variables, and tilde-expansion prefixes with special characters in HOME; the probe's argument list must equal the model's sorted list of existing matching paths (or the unchanged word). Bounded. Words may contain empty quoted segments; a backslash that ends an unquoted expansion with nothing left to escape must leave the field unchanged (every other trailing-backslash case stays skipped as unspecified).",
    note="Trusted: harness/src/model/glob.rs + model/fnmatch.rs. Classes the simulated OS cannot express (symlink in the middle of a path, unreadable directories) are skipped and counted; one simulator deviation is an open known finding (vfs-dot-in-unsearchable-dir).",
    design="4/C05"),
 "C06": dict(
    technique="property-based testing: grammar-based program generation, mutation of generated and corpus texts, token/Unicode soup, the repository's scripted-test corpus; oracles: totality (no panic/blocking/no-progress), metamorphic read-ahead check on line prefixes, and parse-print-parse equality on a hand-written structural normal form; typeset -fp path through the virtual shell; thorough tier adds coverage-guided fuzzing (libFuzzer targets c06_text, c06_grammar, c06_mutant) over the same oracles, quick tier replays their committed corpus",
    text="Exploration: 100 corpus files (1972 embedded scripts), a 136-entry catalogue, 100k grammar programs, 100k mutants, 80k soup texts, 16k function definitions through typeset -fp, and every parameter-name string up to length 4 (quick; thorough ~12M): the parser must terminate with a tree or a syntax error (also through the shell: diagnostic + non-zero status), must not need a line it does not use, and every printed tree must re-parse to an equal normal form (idempotent printing). Bounded; generated nesting <= 40.",
    note="Trusted: the normal-form walker over the public AST (only Locations erased) and the generators in harness/src/props/c06.rs. Here-document bodies are compared only by operator and delimiter. Six printer/lexer corner cases are open known findings; a stack probe records where unbounded recursion overflows (1008 nested groups on an 8 MiB stack).",
    design="4/C06"),
 "C07": dict(
    technique="property-based testing: round trip quote->lex->expand over exhaustive/random strings, and print->evaluate-in-fresh-shell->snapshot comparison over proptest state-definition sequences for ten listing built-ins; thorough tier adds a libFuzzer target (c07_quote) over the quote round trip, quick tier replays its corpus",
    text="Exploration: every string up to length 3 (quick) / 4 (thorough) over 43 shell-special characters plus random Unicode strings to length 40 must read back as exactly one identical field in six syntactic positions; random states (variables with attributes, arrays, aliases, functions, options, traps, umask) printed by alias / export -p / readonly -p / typeset -p / typeset -fp / set / set +o / trap / umask / umask -S must be recreated by a fresh shell evaluating the listing. Bounded.",
    note="Trusted: snapshot probe, the harness' own single-quote renderer for definitions. Two open known findings concern typeset -fp (function keyword, reserved-word names). Global aliases do not exist in yash-rs and are not covered.",
    design="4/C07"),
 "C08": dict(
    technique="property-based testing: exhaustive (subshell kind x mutator) grid + proptest mutator sequences under FIFO and seeded schedules; invariant oracle on full parent snapshots before/after and on the child's view at entry",
    text="Exploration: 10 subshell kinds x 67 state mutators x 3 schedules exhaustively, plus random sequences of 1-5 mutators under random schedules with preemption, also nested in an outer subshell that has mutated its own state, with the subshell ending by falling off the end / exit / death by SIGTERM, SIGINT or SIGQUIT, in non-interactive and interactive (-i, script on stdin) shells; the parent's complete observable state (variables+attributes, functions, aliases, options, positional parameters, traps, cwd, umask, descriptor table by open-file-description identity, signal dispositions) must be identical before and after; the child's view at entry must equal it except for reset command traps. Bounded. Round D/E additions: the subshell command may be started from inside a trap action while another trapped signal has been caught but not yet handled (its trap must be reset in the child like any other, and its action must run exactly once, in the parent). In the nested form the way the inner subshell ends (exit, death by a signal) must not keep the outer subshell from reaching its next command (checked by re-running the case with the inner body falling off its end).",
    note="Trusted: the snapshot probe (probes.rs) and process inspection (vsys.rs). `$?`, `$!`, the job list and the variable assigned from $( ) are excluded by construction; SIGCHLD handling installed by the shell itself, and the job-control stop signals an interactive shell's subshells keep ignoring, are not counted as differences.",
    design="4/C08"),
 "C09": dict(
    technique="property-based testing + fault enumeration: exhaustive single redirections (18 command kinds incl. a sourced script x 73 operator/operand pairs x 7 targets x noclobber), proptest redirection lists, and a descriptor-limit sweep (RLIMIT_NOFILE 3..16, two ways) against a reference descriptor-table/file model; invariant-only oracle under injected allocation failures",
    text="Exploration: 18k exhaustive single-redirection cases, 300k (quick) / 10M (thorough) random lists of 1-3 redirections on every command kind with initial exec-opened descriptors, and 4k base cases re-run under every descriptor limit 3..16 so that allocation fails at every position (saving copy, open, here-document file, pipe). Predicted: table seen by the command, table afterwards (identical to before unless exec succeeded), file contents byte for byte, status, diagnostics; always: descriptors >= 10 are close-on-exec, nothing leaks. A further fault-enumeration driver (`exhaust`) runs 16 constructs that allocate descriptors themselves (pipelines of 2-5 commands, nested command substitutions, here-documents, sourced scripts, functions with redirections) under every limit 3..20 with 0-4 descriptors opened beforehand, in an interactive shell that survives the failure and in a non-interactive one whose EXIT trap inspects the table: the descriptor table after the construct must equal the one before.",
    note="Trusted: harness/src/model/fdtable.rs and the snapshot probe. Under the limit sweep only the invariants are checked (which step fails is not predicted). Symbolic links and non-regular noclobber targets are not generated (simulator limitations).",
    design="4/C09", level="fault_enumeration"),
 "C10": dict(
    technique="property-based testing: proptest programs with planted failures of every shell-error category and errexit toggles, run on the virtual shell vs a reference interpreter with the errexit rule and the shell-error table; EXIT-trap probe counted; the same programs also through the real yash3 start-up code",
    text="Exploration: the C02 generator plus failing commands of each documented category, errexit on/off/toggled, EXIT trap; trace up to the abort point, nothing after it, status (exact where documented, else non-zero), EXIT probe exactly once and last. Bounded random search with shrinking. Redirection errors are rendered with several causes (missing file, descriptor number beyond the limit of 256 fixed for these runs, closed source descriptor).",
    note="Trusted: reference interpreter (errexit = option on and no dynamically enclosing condition context; shell-error table from docs/src/termination.md). Syntax-error categories are covered by C18, not here.",
    design="4/C10"),
 "C15": dict(
    technique="property-based testing / stateful: exhaustive enumeration of small task systems + proptest larger ones, instrumented futures, invariants over the poll/wake log and equality with a pure FIFO reference scheduler; run_until_stalled vs step() differential",
    text="Exploration: every system of 1-3 tasks x <=3 actions over 2 channels (6-7 action letters), every parent/child spawn-join system (quick), a strided walk over 4 tasks x <=4 actions (thorough), and random systems of <=8 scripts x <=10 actions; each run twice (run_until_stalled and a step() loop). Invariants: no lost wake-up at a stall, no poll after Ready, no re-entrant poll, no poll without a wake, bounded bypass, wake_count bounds, receiver yields its value exactly once, genuine stall; and the whole log equals a queue-with-duplicate-suppression reference model. A fifth driver hands one Receiver from task to task: every sequence of <=5 polls by up to 3 consumer tasks x every point at which the producer completes x immediate or delayed completion x both run modes; the value must arrive exactly once, at the task that polled last before it existed (or the first to poll afterwards).",
    note="Trusted: the instrumented futures and the reference scheduler in harness/src/props/c15.rs. The exact FIFO order is asserted because the property names a FIFO wake queue; the docs only say 'queue'. Re-queuing of completed tasks by stale wakers is tolerated (not constrained by the property).",
    design="4/C15"),
 "C16": dict(
    technique="property-based testing: exhaustive + proptest operation trees on VariableSet in lock-step with a naive stack-of-maps model; proptest scripts on the virtual shell vs a stack-of-scopes model incl. the environment passed to execve",
    text="Exploration: (API) every operation tree of <=4 (quick) / <=5 (thorough) mutating operations over 2 names x 2 values x 8 action lists at nesting <=3, plus random trees of <=30 operations, executed on the real VariableSet and on a naive stack-of-maps model, everything compared after each step; (scripts) 60k (quick) / 3M (thorough) generated programs with temporary assignments on every command kind, function locals, positional parameters, read-only marks and all assigners, compared with a model of the manual at every snapshot, at every execve environment and at the end.",
    note="Trusted: the two models (c16a.rs, c16b.rs). Whether a prefix assignment of a special built-in sets the export attribute is treated as unspecified (manual and code disagree; POSIX leaves it open). Undocumented interactions of function bodies with a caller's temporary assignment are skipped and counted.",
    design="4/C16"), "C03": dict(
    technique="property-based testing: exhaustive small-tree enumeration + proptest random trees/token soup against an i128 reference evaluator; metamorphic constant-vs-variable relation; thorough tier adds libFuzzer targets (c03_text: raw expression text, c03_tree: byte-decoded expression trees) over the same oracles, quick tier replays their corpus",
    text="Exploration: every expression tree of depth<=2 over all operators on boundary operands (quick: depth 1 complete, depth 2 strided; thorough: complete), millions of random deeper trees, token soup and arbitrary text, each compared with an independent exact evaluator (value, final variables, or 'must be an error'). Bounded search, not a proof: absence of wrong results is only shown for what was generated. The constant-through-a-variable relation also covers signed octal / hexadecimal texts and superfluous leading zeros (`-010`, `+0X1F`, `-08`).",
    note="Trusted: the harness' reference evaluator (C semantics on i128) and renderer. Unsequenced side effects, parenthesised lvalues and non-constant variable texts are skipped as unspecified.",
    design="4/C03"),
 "C04": dict(
    technique="property-based testing: exhaustive (pattern, string, mode) enumeration + proptest bracket-expression grammar against an independent POSIX pattern parser and matcher; thorough tier adds a libFuzzer target (c04_pat) over the same oracle, quick tier replays its corpus",
    text="Exploration: every pattern up to length 4 (quick) / 5 (thorough) over the metacharacter alphabet, with and without backslash escaping, against every string up to length 3, in the six configurations the shell uses (whole match with/without leading-period rule, the four trims); plus random longer patterns with ranges, classes, collating symbols and equivalence classes over all printable ASCII and some non-ASCII characters. Compared with a reference matcher written from the POSIX text. Bounded search, not a proof.",
    note="Trusted: the harness' reference parser/matcher for the POSIX locale. Patterns whose meaning POSIX leaves undefined are skipped (counted in the evidence).",
    design="4/C04"),
 "C11": dict(
    technique="property-based testing / stateful: exhaustive + proptest operation histories on TrapSet over the real SignalSystem implementation against a per-signal reference merge; proptest scripts with a trapped signal delivered by self-kill at every position and asynchronously by the harness scheduler",
    text="Exploration: every history of <=5 operations (quick: strided, thorough: complete) over a 35-operation alphabet x interactive/non-interactive x 3 sets of initially ignored signals, plus random histories of <=14 operations; after each operation the disposition installed in the simulated process for each of 9 signals must equal max(internal, user/inherited), set_action must fail exactly in the documented cases, take_caught_signal must yield each trapped delivery exactly once. Scripts: 40k (quick) / 2M (thorough) with `kill -s USR1 $$` at every position or SIGUSR1 raised by the scheduler before a generated step: exactly one trap execution, at a command boundary, seeing and preserving $?. Bounded. Chain driver additions: deliveries that arrive while a multi-command pipeline runs, steps written on one line (one list) instead of one per line, an action that forks a subshell while another signal is pending (no action may run in the child), and an action that sets the other signal's trap again while its delivery is pending (the delivery must not be forgotten). The delivery driver also raises a SIGCHLD in the same instant as the trapped signal while the shell is blocked in `wait`.",
    note="Trusted: the reference merge in harness/src/props/c11.rs, the scheduler's asynchronous raise (only when the process currently catches the signal). Deliveries are also made to an interactive shell that reads its script through a pipe in generated chunks, so that the `read` built-in can be blocked when the signal arrives. A third family (chain) covers a signal delivered while another action runs, two signals pending at one boundary, an action that returns from the enclosing function, and delivery by the last command. A delivery made while the shell is blocked inside the `wait` built-in (child held by a probe until after the wait; signal raised by the scheduler when the shell task is blocked) must interrupt it: status > 128, action exactly once before the next command. Terminal/job-control stoppers are exercised at API level only.",
    design="4/C11"),
 "C12": dict(
    technique="property-based testing / stateful: exhaustive enumeration of valid job-event histories (automaton unranking) + proptest random histories against a shadow model and the documented invariants, checked through the public JobList API after every step",
    text="Exploration: every valid history up to length 5-6 (quick) / 6-7 (thorough) over 3-4 pids and the full operation alphabet, plus random histories of length <=60; after every transition the current/previous-job invariants, pid index, index stability and 21 job-ID queries are checked against a shadow map. Bounded exploration of the reachable state space (distinct observable states are counted), not an inductive proof.",
    note="Trusted: the shadow model and invariant list in harness/src/props/c12.rs (only what the doc comments and the property state). Stopped-to-stopped updates are not judged (doc ambiguous).",
    design="4/C12"),
 "C13": dict(
    technique="property-based testing with an owned scheduler: proptest race-free programs x (depth-first enumeration of scheduler choice vectors + seeded schedules) with preemption hooks, compared with a reference model; process table inspected at exit",
    text="Exploration: random race-free programs (pipelines, async lists, wait/wait PID, subshells, command substitutions, pipefail, pipelines whose last stage exits without reading while the writers hold more than the pipes can buffer), each run under FIFO, a DFS over the scheduler's choice vectors up to a budget and seeded random schedules, with preemption points before every wait/read/write; per-process traces, status, stderr, sink data must equal the reference model under every schedule, no deadlock, every child terminated and reaped. Bounded; liveness only as 'no explored schedule deadlocks'. Scenario sequences line up what independent random commands rarely do: several failing components under pipefail, statuses asked for after `wait` collected the jobs or asked for twice, `wait` with several operands (live, collected, foreign), subshells that must die of the signal that killed their last command (trapped or inherited as ignored), an asynchronous list that resets its SIGINT trap.",
    note="Trusted: harness scheduler (vsys.rs), the verif-hooks preemption points in yash-env, the small reference model in c13.rs. Interleavings finer than system-call boundaries and the real OS scheduler are not explored.",
    design="4/C13"),
 "C14": dict(
    technique="property-based testing with an owned scheduler: payload sizes around every pipe-buffer boundary x shapes x schedules (grid + proptest scripted schedules + DFS on small transfers); round-trip oracle on the bytes",
    text="Exploration: a grid of 19 boundary sizes x 4 trailing-newline counts x 8 shapes x 6 sets of standard descriptors closed beforehand x 16 (quick) / 200 (thorough) schedules, random sizes up to 4x pipe capacity with shrinkable scripted schedules, and a depth-first enumeration of schedules for four small transfers; received bytes / $( ) value / here-document body must equal what was produced. Bounded. Payloads also come with white space of six kinds before (and a blank between) the trailing newlines; read loops (`gen | while IFS= read -r`, and the loop on a standard input that a writer fills in chunks of 1-7 bytes) must pass every line through.",
    note="Trusted: probe built-ins gen/cat/sink, harness scheduler, preemption hooks. Only the simulated pipe implementation (PIPE_BUF 512, PIPE_SIZE 1024) is exercised.",
    design="4/C14"),
 "C17": dict(
    technique="property-based testing / differential: exhaustive alias tables x line templates; the real parser with the table vs the real parser without aliases on the harness' textual substitution (reference tokenizer + command-position model); look-up counter as termination oracle; second parse with newly allocated alias definitions on every look-up; 10% executed; runtime driver for aliases whose multi-line value changes the alias table",
    text="Exploration: every alias table over 3 (quick) / 4 (thorough) names x 22 value shapes (other names, trailing blank, reserved words, operators, redirections, assignments, quoted, empty, self-reference, newline) x 44 / 120 command-line templates; printed parse of L with table T must equal printed parse of the hand-substituted L' (or both syntax errors); more than 10 000 alias look-ups = non-termination; a sample is executed and traces compared; every substituting case is parsed again with a glossary that hands out a new definition object per look-up (same result required); 120 scripts with a two-line alias value whose first line re-defines / removes an alias used on its second line are executed and compared with the by-hand reading. Bounded. Lines include the word after `command`; values include a loop header ending in a blank and `do` after a newline.",
    note="Trusted: the substitution model in harness/src/props/c17.rs and the alias-free parser (itself judged by C06). Global aliases are checked at parser API level only (yash-rs has no alias -g).",
    design="4/C17"),
 "C18": dict(
    technique="property-based testing / metamorphic: proptest scripts fed as -c string, script file, stdin file and stdin pipe written in generated chunk sizes under generated schedules; compared with a reference line-at-a-time interpretation",
    text="Exploration: random scripts (alias definitions and uses, read consuming following lines, multi-line commands, here-documents, eval/source of multi-line text, planted syntax errors, offset probes, comments holding arbitrary bytes incl. stray and truncated UTF-8 sequences right before the newline) run in four feeding modes, the pipe optionally inherited non-blocking; probe traces, read values, here-document data, status and (for seekable stdin) the descriptor offset after each command must equal the reference and hence each other, and fd 0 must be in blocking mode whenever a command runs. Bounded. A fifth input mode gives the script as a file operand naming a FIFO that a writer process fills in the generated chunks. Items also include a here-document followed on its command line by `pos` or `read`, the `portable` option switching how later lines (and later lines of an alias value) are parsed, and `exec <file` while the commands come from standard input.",
    note="Trusted: the reference interpretation in harness/src/props/c18.rs, the helper process that feeds the pipe (vsys.rs). The pipe feeder yields between chunks so the scheduler interleaves reader and writer; the real OS is not used.",
    design="4/C18"),
 "C19": dict(
    technique="property-based testing / differential: proptest scripts from a 129-statement catalogue run by the same generic shell main on RealSystem (child process in a scratch directory) and on VirtualSystem; stdout, exit status, stderr emptiness and final file tree diffed",
    text="Exploration: every catalogue statement alone and in two fixed contexts, plus 8k (quick) / 400k (thorough) random scripts of 3-10 statements over redirections, descriptor juggling, cd, globbing, pipelines, substitutions, here-documents, read, subshells, umask, traps with self-signals, background jobs and wait, transfers of 66-150 kB through real pipes, a trapped signal arriving between two forks of one command, signals whose default action is to be ignored, the descriptor limit (last valid descriptor, failed pipe with one free slot), PATH search past directories, wait with a stopped sibling, and error cases; both systems must produce identical stdout, status (incl. death by signal), stderr emptiness and final tree (names, types, contents, permission bits). A real-OS run in which every process of the script is asleep without using CPU for 10 s is reported as a deadlock (state predicate, not a time limit). Bounded; the real side runs under its natural schedule only. The catalogue (about 185 statements) also covers file offsets (a file truncated through another descriptor, duplicated vs separately opened descriptors, append mode, offsets shared with a subshell), exit statuses beyond 8 bits, `kill` of a child that has been waited for, descriptor exhaustion before a file would be created or truncated, and the default action of 17 signals sent by a subshell to the process group. The shell on the real side always starts with default signal dispositions and an empty mask.",
    note="Trusted: the replicated 12 lines of yash-cli glue (sys.rs), the probe built-ins, tempfile scratch directories. Two simulator limitations are open known findings (symbolic links not followed by open / in mid-path; open(O_CREAT) creating missing directories); permission-denied behaviour is not exercised (root).",
    design="4/C19"),
 "C20": dict(
    technique="property-based testing: exhaustive argument-vector enumeration + proptest vectors against a reference option parser, combinatorial equivalent-spelling groups for the shell command line, and a 222-entry built-in invocation catalogue rewritten into all documented spellings (metamorphic on output, status and state snapshot)",
    text="Exploration: every vector of <=4 (quick) / <=5 (thorough) tokens from a 23-token alphabet x 9 option specifications x 8 modes compared with a reference parser of the utility syntax guidelines, random longer vectors, ~10k groups of equivalent spellings of the shell's own command line, and 6622 spellings + 1599 malformed variants of 222 catalogue invocations of 31 built-ins (identical stdout/stderr-emptiness/status/state across spellings; rejection without effect for malformed ones). Every rejected (malformed) invocation that leaves the shell running is also run with a redirection attached, which must be undone like any other effect. A whole `while getopts` loop is compared over five spellings of one argument list; export / readonly / typeset arguments starting with two different signs must be rejected.",
    note="Trusted: the reference parser (c20a.rs), the catalogue and spelling generator (c20b.rs, derived from docs/src/builtins). Built-ins needing a terminal or stopped jobs are covered only by the malformed-variant check.",
    design="4/C20"),
}

PENDING_REASON = "check not built yet in this round of work (planned in DESIGN.md section 4); nothing is claimed for it"

def main():
    props = [json.loads(l)["id"] for l in open("/verif/properties.jsonl")]
    checks = []
    na = []
    for pid in props:
        c = CHECKS.get(pid)
        if not c:
            na.append({"property_id": pid, "reason": PENDING_REASON})
            continue
        level = c.get("level", "exploration")
        checks.append({
            "property_id": pid,
            "quick_cmd": f"./run.sh {pid} quick",
            "thorough_cmd": f"./run.sh {pid} thorough",
            "evidence_file": f"evidence/{pid}.json",
            "replay_cmd_template": f"./run.sh {pid} replay {{path}}",
            "engine": c.get("engine", "vcheck"),
            "level_claimed": {"category": level, "text": c["text"], "design_ref": c["design"]},
            "level_note": c["note"],
            "technique": c["technique"],
        })
    hooks_commits = []
    hc = "/verif/tools/hook_commits.txt"
    if os.path.exists(hc):
        hooks_commits = [l.strip() for l in open(hc) if l.strip()]
    m = {
        "version": 1,
        "setup_cmd": "./run.sh --setup",
        "hooks": {
            "guard": "cargo feature `verif-hooks` of the crates yash-env and yash-syntax (off by default; the latter only forwards lexer rewind counts to the former)",
            "enable": "the harness manifest /verif/harness/Cargo.toml lists yash-env with features [\"test-helper\", \"verif-hooks\"] and yash-syntax with features [\"verif-hooks\"]; run-time switch yash_env::verif_hooks::set_preemption(true) is used only by the schedule-exploring checks",
            "baseline_off_cmd": "cd /repo && (cargo nextest run --workspace --no-fail-fast --tool-config-file pb:/w/lib/nextest.toml --profile pb --test-threads 8 --offline || cargo test --workspace --no-fail-fast --offline)",
            "source_commits": hooks_commits,
            "add_only": True,
        },
        "engines": [
            {"name": "vcheck", "path": "harness/", "serves_properties": [c["property_id"] for c in checks],
             "kind_free_text": "Rust library + binary linking the /repo crates by path; proptest TestRunner (fixed seeds, shrinking) + exhaustive index enumerators + reference models; replay files are plain JSON cases"},
            {"name": "vcheck-fuzz", "path": "fuzz/", "serves_properties": ["C03", "C04", "C06", "C07"],
             "kind_free_text": "cargo-fuzz / libFuzzer targets (built by run.sh for thorough tiers: cargo +nightly fuzz build -s none); each target decodes the fuzzer's bytes into a case of a vcheck driver and runs that driver's oracle in-process; fixed -runs per process, 16 processes; seed corpus fuzz/corpus/<target>/ is also replayed by the quick tiers"},
        ],
        "checks": checks,
        "not_applicable": na,
        "notes": "All checks are generated-input searches against explicit oracles (see DESIGN.md). Exit 2 = inconclusive (build failure/watchdog), never a violation.",
    }
    json.dump(m, open("/verif/MANIFEST.json", "w"), indent=1)
    try:
        import jsonschema
        jsonschema.validate(m, json.load(open("/root/.vp/MANIFEST.schema.json")))
        print("MANIFEST.json valid;", len(checks), "checks,", len(na), "not_applicable")
    except ImportError:
        print("jsonschema not available; not validated")

if __name__ == "__main__":
    main()
