#!/usr/bin/env python3
"""Development helper: the table of seeded changes (what each needs in order to manifest, which
check catches it, whether the check had to be strengthened first).  Completes
/verif/seeded/<id>/meta.json and prints the markdown table used in DESIGN.md section 9.

    python3 tools/seed_table.py            # update meta.json files, print the table
"""
import json, os, sys

# seed: (breaks (part of the property), needs, caught_by (driver; first violation message), strengthened)
T = {
 "C01-1": ("`read` gives the remainder to the last variable",
           "`read` without -r, more fields than variables, line ending in a backslash-escaped IFS white-space character",
           "C01 driver read (model/expand.rs split of the remainder)", ""),
 "C01-2": ("`:-` `:=` `:?` `:+` on `$@`/`$*`",
           "exactly one positional parameter which is empty, colon form of a switch applied to `@` or `*`",
           "C01 driver word", ""),
 "C02-1": ("`$?` of a command-less simple command",
           "assignment-only command with >= 2 assignments, an earlier one containing a failing command substitution, the last one none",
           "C02 drivers program / program-real",
           "added assignment-only commands (`Simple::Assigns`) to the program generator and model"),
 "C02-2": ("`!` inverts the status",
           "the word after `!` is subject to alias substitution (alias defined on an earlier line)",
           "C02 drivers program / program-real",
           "added aliases in command position (`Simple::AliasSt`, prelude aliases) to the generator"),
 "C03-1": ("overflowing `<<` is an error",
           "left shift losing high bits whose truncated result is positive and >= lhs (e.g. 5<<62)",
           "C03 driver tree (exact i128 model)", ""),
 "C03-2": ("constants beyond i64 are errors",
           "literal constant with magnitude in 2^63 .. 2^64-1",
           "C03 driver tree / text (boundary constants)", ""),
 "C04-1": ("`case` runs the first item with a matching pattern",
           "case item with several alternatives where one that fails to compile precedes one that matches",
           "C04 driver shell",
           "added multi-alternative case items (`CaseAlt`) to the shell-level generator"),
 "C04-2": ("`%` removes the shortest matching suffix",
           "`%` with a wildcard pattern matching at >= 2 start positions, a non-final candidate starting with a multi-byte character",
           "C04 driver pattern (find/rfind vs model on non-ASCII strings)", ""),
 "C05-1": ("results are sorted",
           "wildcard in a non-final component and names where per-level order differs from whole-path order (`a`, `a-b` vs `/`)",
           "C05 drivers glob-exhaustive / glob-random", ""),
 "C05-2": ("quoted characters are literal",
           "backslash that came from an expansion inside double quotes, followed by a wildcard character",
           "C05 drivers glob-exhaustive / glob-random", ""),
 "C06-1": ("printed command re-parses to the same tree",
           "simple command with a redirection and no assignment whose first word is a clause-delimiter keyword (`>/dev/null fi`)",
           "C06 drivers grammar / catalogue", ""),
 "C06-2": ("parser never panics",
           "IO_NUMBER / IO_LOCATION token (`1>`, `{fd}>`) directly in a case pattern position",
           "C06 drivers mutant / soup", ""),
 "C07-1": ("quoted word reads back as the same field",
           "`:~` only after an earlier colon, no other character needing quotes, read back where tilde expansion after colons applies and HOME is set",
           "C07 driver quote",
           "set HOME in the quote driver so that a wrongly unquoted `~` expands to something else"),
 "C07-2": ("`typeset -p`/`export -p` listings recreate variables",
           "variable name that starts with `-` and also needs quoting (`-a b`)",
           "C07 driver listing",
           "added definitions of variables with non-identifier names (`Op::TypesetOdd`)"),
 "C08-1": ("traps with command actions are reset on subshell entry",
           "a trap set inside a subshell, then a subshell nested in that subshell",
           "C08 driver isolation",
           "added the nested form: mutators in an outer `( )`, entry view compared with the outer subshell"),
 "C08-2": ("parent's open files unchanged by a command substitution",
           "interactive shell, SIGINT not trapped, the command substitution's subshell dies of SIGINT",
           "C08 driver isolation",
           "added `ending` (exit / killed by TERM, INT, QUIT via the new `selfkill` probe) and interactive shells fed on stdin; harness replica now uses the interactive read-eval loop"),
 "C09-1": ("descriptor table restored after the command",
           "the same target descriptor redirected twice on one command run in the shell process",
           "C09 drivers single / list (fdtable model)", ""),
 "C09-2": ("here-document reaches the command (descriptor without close-on-exec)",
           "real OS only: here-document whose target descriptor is the lowest free descriptor (`3<<EOF`), read by an external command",
           "C19 driver real-vs-virtual",
           "added here-documents on descriptors 3-5 read by `cat <&3` to the C19 statement catalogue (C09 runs on the simulated OS only and cannot see it)"),
 "C10-1": ("errexit exemption inside conditions",
           "errexit on; a subshell, command substitution or dot script executed in an exempt context contains a failing command followed by more commands",
           "C10 driver program", ""),
 "C10-2": ("EXIT trap runs exactly once on abort",
           "EXIT trap set, non-interactive shell aborted by a shell error without errexit (yash-cli glue, not the library loop)",
           "C10 driver program-real",
           "added a driver that runs the real `yash_cli::main` (re-exec of the harness binary as yash3)"),
 "C11-1": ("ignored-on-entry / subshell rule for SIGINT and SIGQUIT",
           "state entry created by peeking (trap -p, or internal disposition enabled then disabled) before entering a subshell that must ignore INT/QUIT",
           "C11 driver history", ""),
 "C11-2": ("each delivery runs its action exactly once at the next boundary",
           "a second trapped signal delivered while another action runs, or two pending signals where the first action diverts",
           "C11 driver chain",
           "added the chain driver (USR1 action sends USR2, both pending at one boundary, returning action, delivery by the last command)"),
 "C12-1": ("suspended jobs are current/previous",
           ">= 2 suspended jobs, the current one terminates without an intervening continue",
           "C12 driver exhaustive", ""),
 "C12-2": ("two or more jobs imply a distinct previous job",
           "insert of a suspended job that reuses the pid of the current job",
           "C12 driver exhaustive", ""),
 "C13-1": ("every child reaped exactly once",
           "operand-less `wait`, >= 3 asynchronous jobs, lower-numbered jobs finishing while a higher-numbered one still runs",
           "C13 driver schedule (non-FIFO schedules)", ""),
 "C13-2": ("no deadlock; true pipeline status",
           "last pipeline stage exits before its upstream neighbour has written more than the pipe holds",
           "C13 driver schedule",
           "added `EarlyExit` pipelines (`gen N | cat* | st K`, N beyond all buffers)"),
 "C14-1": ("bytes arrive completely and in order",
           "simulated pipe's ring buffer wraps: reader takes part of the buffer, writer appends, payload > capacity",
           "C14 driver data", ""),
 "C14-2": ("bytes through a pipeline reach the reader",
           "fd 1 closed (`exec >&-`) before a pipeline of >= 3 stages",
           "C14 driver data",
           "added transfers with standard descriptors closed beforehand (`pre` bit mask)"),
 "C15-1": ("a task is queued at most once; no poll after completion",
           "a task already in the queue woken again by a task polled earlier in the same run_until_stalled batch, or a task driving the executor from inside its own poll",
           "C15 drivers exhaustive / random (wake_count and poll-log invariants)", ""),
 "C15-2": ("no woken task starved by self-re-waking tasks",
           "a woken, not yet polled task plus >= 2 tasks that each wake it again and re-wake themselves",
           "C15 drivers exhaustive / random (FIFO reference scheduler)", ""),
 "C16-1": ("environment of executed programs = exported variables",
           "exported global hidden by a non-exported local of the same name, external utility started inside the function",
           "C16 drivers api-* / script-random (Process::last_exec environment)", ""),
 "C16-2": ("locals vanish at return; lookup returns the innermost scope",
           "bare `typeset x` (no value, no attribute) in a function when x is already visible from an outer scope, then assignment",
           "C16 driver script-random", ""),
 "C17-1": ("a name is not substituted again within its own replacement; termination",
           "the alias is re-defined (new definition object) between the substitution and the re-occurrence of its name inside the replacement text",
           "C17 drivers alias / global (second parse with a glossary handing out newly allocated definitions) and runtime",
           "added the fresh-definition glossary pass and the runtime driver (two-line alias value whose first line re-defines the alias)"),
 "C17-2": ("commands executed equal the by-hand substitution",
           "alias name in command position preceded by an assignment word or redirection",
           "C17 drivers alias / global", ""),
 "C18-1": ("input is read no further than the current line",
           "a UTF-8 lead byte (valid or stray) within the last 1-3 bytes before the newline, followed by a command that consumes the same input (`read`, `pos`)",
           "C18 driver input",
           "added comments holding arbitrary bytes attached to mark / pos / read lines (scripts were ASCII only)"),
 "C18-2": ("what follows on standard input remains available to commands reading it",
           "standard input is a pipe inherited with O_NONBLOCK; a command reads it before the data has arrived",
           "C18 driver input",
           "added pipe mode with the read end handed over non-blocking; `pos` records the blocking mode of fd 0 at command time"),
 "C19-1": ("the simulator invents no behaviour",
           "command trap on a signal, the signal delivered to the shell between two forks of one simple command (`x=$(kill -s USR1 $$)$(...)`)",
           "C19 driver real-vs-virtual",
           "added statements with a trapped signal arriving between two command substitutions of one command"),
 "C19-2": ("the real system hides no behaviour (same output)",
           "a built-in's own write to a pipe blocks: more than 64 KiB into a pipe (real OS only)",
           "C19 driver real-vs-virtual (stall detector)",
           "added transfers of 66-150 kB and a real-OS deadlock detector (every process of the script asleep, no CPU use for 10 s)"),
 "C20-1": ("`--name=value` equals `--name value`",
           "long option with attached argument that itself contains `=` (`read --delimiter== v`)",
           "C20 driver builtin-catalogue", ""),
 "C20-2": ("`--` ends option parsing",
           "kill: operand after `--` that starts with a hyphen (negative process ID)",
           "C20 driver builtin-catalogue",
           "added `kill -s 0 -- -1` and its spellings with the documented result"),
}

def main():
    root = os.path.join(os.path.dirname(os.path.abspath(__file__)), "..", "seeded")
    rows = []
    for seed in sorted(T):
        breaks, needs, caught, strengthened = T[seed]
        d = os.path.join(root, seed)
        mj = os.path.join(d, "meta.json")
        if os.path.exists(mj):
            m = json.load(open(mj))
            m["breaks"] = f"{m.get('property', seed[:3])}: {breaks}"
            m["what_it_needs"] = needs
            m["caught_by"] = caught
            m["check_strengthened_for_it"] = strengthened or "no (caught by the check as first written)"
            m["what_was_run"] = (m.get("confirmed_by", "") +
                "; detection: tools/mutant_run.sh <patch.diff> <property> quick (scratch copy of /repo with the patch, harness rebuilt against it) must print a VIOLATION line, and the same check is silent on the unchanged tree")
            json.dump(m, open(mj, "w"), indent=1)
            conf = "yes" if m.get("confirmed") else "NO"
        else:
            conf = "not filed"
        esc = lambda x: x.replace("|", "\\|")
        rows.append(f"| {seed} | {esc(breaks)} | {esc(needs)} | {esc(caught)} | {esc(strengthened) or '-'} | {conf} |")
    print("| seed | part of the property broken | needs, in order to manifest | caught by | check strengthened first? | confirmed |")
    print("|---|---|---|---|---|---|")
    print("\n".join(rows))

if __name__ == "__main__":
    main()
