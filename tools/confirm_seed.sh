#!/bin/bash
# Development helper: confirm a seeded change independently and file it under /verif/seeded/.
#   tools/confirm_seed.sh <seedout-dir> <property-id> <k>
# Uses a scratch worktree /tmp/confirm (kept between calls for build caching; remove it with
# `git -C /repo worktree remove --force /tmp/confirm` when done).
set -u
src=$1; pid=$2; k=$3
W=${CONFIRM_W:-/tmp/confirm}
dest=/verif/seeded/$pid-$k
if [ ! -d "$W" ]; then git -C /repo worktree add -q "$W" HEAD || exit 2; fi
cd "$W" || exit 2
git checkout -q -- . ; git clean -fdq -e target
git checkout -q --detach "$(git -C /repo rev-parse HEAD)" || exit 2
git apply "$src/patch.diff" || { echo "PATCH DOES NOT APPLY"; exit 2; }
export CARGO_NET_OFFLINE=true
tests_with=$(cargo test --workspace --offline --lib 2>&1 | grep -E "^test result|^error" | tr '\n' ';')
demo=none; demo_with=-; demo_without=-
if [ -f "$src/demo.sh" ]; then
    demo=demo.sh
    # the seeding agents hard-coded their own worktree path; run a copy pointed at this worktree
    sed -e "s|/tmp/seed_$pid|$W|g" -e "s|/tmp/seedB_$pid|$W|g" -e "s|/tmp/seedC_$pid|$W|g" -e "s|/tmp/seedD_$pid|$W|g" -e "s|/tmp/seedE_$pid|$W|g" -e "s|/tmp/seedF_$pid|$W|g" -e "s|/tmp/seedG_$pid|$W|g" -e "s|/tmp/seedH_$pid|$W|g" "$src/demo.sh" > "$src/.confirm_demo.sh"
    sh "$src/.confirm_demo.sh" "$W" >"$W.with.out" 2>&1; demo_with=$?
    git checkout -q -- .
    sh "$src/.confirm_demo.sh" "$W" >"$W.without.out" 2>&1; demo_without=$?
fi
if [ "$demo" = none ] && [ -f "$src/demo_test.rs" ]; then
    # integration-test style demonstration: the header names the file to create and the test to run
    rel=$(grep -oE '[a-z-]+/tests/[A-Za-z0-9_]+\.rs' "$src/demo_test.rs" | head -1)
    if [ -n "$rel" ]; then
        demo=demo_test.rs
        crate=${rel%%/*}; tname=$(basename "$rel" .rs)
        mkdir -p "$(dirname "$W/$rel")"; cp "$src/demo_test.rs" "$W/$rel"
        cargo test -p "$crate" --offline --test "$tname" >$W.with.out 2>&1; demo_with=$?
        git checkout -q -- .
        mkdir -p "$(dirname "$W/$rel")"; cp "$src/demo_test.rs" "$W/$rel"
        cargo test -p "$crate" --offline --test "$tname" >$W.without.out 2>&1; demo_without=$?
        rm -f "$W/$rel"; rmdir "$(dirname "$W/$rel")" 2>/dev/null
    fi
fi
git checkout -q -- . ; git clean -fdq -e target
mkdir -p "$dest"
cp "$src/patch.diff" "$dest/"
for f in demo.sh demo_test.rs demo_test.patch meta.md demo_driver.py script.sh reference_real.sh reference_virtual_test.rs patch_original.diff insert_demo.py; do [ -f "$src/$f" ] && cp "$src/$f" "$dest/"; done
python3 - "$dest" "$pid" "$k" "$tests_with" "$demo" "$demo_with" "$demo_without" <<'PY'
import json,sys
dest,pid,k,tests,demo,dw,dwo=sys.argv[1:]
ok = ("FAILED" not in tests and "error" not in tests and tests.count("test result: ok")>=9)
meta={"seed":f"{pid}-{k}","property":pid,
      "existing_tests_with_change": tests, "existing_tests_pass": ok,
      "demonstration": demo, "demo_exit_with_change": dw, "demo_exit_without_change": dwo,
      "confirmed": ok and demo!="none" and dw not in ("0","-") and dwo=="0",
      "what_it_needs": "see meta.md (written by the seeding agent)",
      "confirmed_by": "tools/confirm_seed.sh in scratch worktree /tmp/confirm: git apply patch.diff; cargo test --workspace --offline --lib; demonstration (sh demo.sh, or demo_test.rs copied to the path its header names and run with cargo test --test) must fail; git checkout; demonstration must pass"}
json.dump(meta,open(dest+"/meta.json","w"),indent=1)
print(meta["seed"],"confirmed" if meta["confirmed"] else "NOT CONFIRMED", "tests_ok",ok,"demo",dw,dwo)
PY
