#!/bin/bash
# Development helper: run the quick check of each seed's property against every filed seed matching a
# glob, over N parallel scratch areas (/tmp/mutK).   tools/seed_sweep.sh '<glob under seeded/>' [N] [check-id-override]
# Result lines go to /tmp/sweep/<seed>.txt ; summary printed at the end.
glob=$1; n=${2:-4}; chk=${3:-}
mkdir -p /tmp/sweep
ls -d /verif/seeded/$glob | sort > /tmp/sweep/list.$$
worker() {
  k=$1
  export MUT_DIR=/tmp/mut$k
  if [ ! -d $MUT_DIR/harness/target ]; then mkdir -p $MUT_DIR/harness; cp -r /verif/harness/target $MUT_DIR/harness/target 2>/dev/null; fi
  awk -v k=$k -v n=$n 'NR%n==k%n' /tmp/sweep/list.$$ | while read -r d; do
    s=$(basename $d); pid=${s%%-*}; c=${chk:-$pid}
    out=$(TAIL=400 /verif/tools/mutant_run.sh "$d/patch.diff" "$c" 2>&1)
    nv=$(echo "$out" | grep -c '^VIOLATION')
    first=$(echo "$out" | grep -A1 '^VIOLATION' | sed -n 2p | cut -c1-300)
    last=$(echo "$out" | grep "^\[$c\]" | tail -1 | cut -c1-200)
    { echo "== $s via $c: violations=$nv"; [ -n "$first" ] && echo "   $first"; [ -z "$last" ] && echo "   (no summary: $(echo "$out" | tail -3 | tr '\n' ' ' | cut -c1-300))"; } > /tmp/sweep/$s.$c.txt
  done
}
for k in $(seq 1 $n); do worker $k & done
wait
rm -f /tmp/sweep/list.$$
cat /tmp/sweep/*.txt | grep '^==' | sort
