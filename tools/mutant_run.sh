#!/bin/bash
# Mutation-testing helper (development only; not used by any registered command).
#   tools/mutant_run.sh <patch-file|-> <Cxx> [tier]   apply patch to a scratch copy of /repo, run check there
#   tools/mutant_run.sh --clean                          remove the scratch area
# The scratch area lives in /tmp/mut (repo copy + harness copy with its own target dir).
set -u
M=${MUT_DIR:-/tmp/mut}
if [ "${1:-}" = "--clean" ]; then rm -rf "$M"; exit 0; fi
patch=$1; id=$2; tier=${3:-quick}
mkdir -p "$M/out"
rsync -a --delete --exclude target --exclude .git /repo/ "$M/repo/"
# files restored by rsync keep their old mtime, which cargo would take for "unchanged": touch
# whatever the previous mutant had modified so that it is rebuilt from the restored source
if [ -f "$M/last_patched" ]; then
    while read -r f; do [ -f "$M/repo/$f" ] && touch "$M/repo/$f"; done < "$M/last_patched"
fi
if [ "$patch" != "-" ]; then
    case "$patch" in
    *.sh) (cd "$M/repo" && bash "$patch") || { echo "MUTATION SCRIPT FAILED"; exit 2; } ;;
    *) (cd "$M/repo" && patch -p1 --no-backup-if-mismatch < "$patch") || { echo "PATCH FAILED"; exit 2; } ;;
    esac
fi
(cd "$M/repo" && diff -rq --exclude target --exclude .git /repo . 2>/dev/null | sed -n 's|^Files /repo/\(.*\) and .*|\1|p') > "$M/last_patched"
rsync -a --exclude target /verif/harness/ "$M/harness/"
sed -i "s|path = \"/repo/|path = \"$M/repo/|" "$M/harness/Cargo.toml"
(cd "$M/harness" && CARGO_NET_OFFLINE=true cargo build --quiet 2>"$M/build.log") || { echo "BUILD FAILED"; tail -20 "$M/build.log"; exit 2; }
if [ "$tier" = thorough ]; then
    case "$id" in C03|C04|C06|C07)
        # the libFuzzer targets, built against the mutated copy
        rsync -a --exclude target --exclude fuzz-work /verif/fuzz/ "$M/fuzz/"
        cp -f "$M/harness/Cargo.lock" "$M/fuzz/Cargo.lock" 2>/dev/null
        (cd "$M/fuzz" && CARGO_NET_OFFLINE=true cargo +nightly fuzz build -s none --fuzz-dir . >"$M/fuzzbuild.log" 2>&1) || { echo "FUZZ BUILD FAILED"; tail -20 "$M/fuzzbuild.log"; exit 2; }
        export VERIF_FUZZ_ROOT="$M/fuzz"
        ;;
    esac
fi
ulimit -s unlimited 2>/dev/null
VERIF_OUT="$M/out" "$M/harness/target/debug/vcheck" "$id" "$tier" 2>&1 | grep -v "^  case" | cut -c1-400 | tail -${TAIL:-8}
exit ${PIPESTATUS[0]}
