#!/usr/bin/env python3
"""Development helper: print the brief given to a seeding sub-agent (round D and later).

  tools/seed_prompt.py <ROUND> <Cxx>      e.g.  tools/seed_prompt.py D C01

The brief contains only the text of the property (plus, from round D on, the two clauses of that
text the agent is asked to aim at, so that the rounds stop re-inventing the same change) and the
paths of the agent's own scratch worktree and output directory. Nothing from /verif is shown.
"""
import json, sys

FOCUS = {
 "C01": ["field splitting at IFS: runs of IFS white space merge, every other IFS character delimits, empty fields survive only from quotes or non-white-space separators",
         "what quotes and backslashes protect inside double quotes, and the value selected by the `=` `?` `+` forms and the `#` `##` `%` `%%` forms when they occur inside or next to quotes"],
 "C02": ["`&&`/`||` short-circuit left to right with equal precedence; `!` inverts only the status; status of a compound command is that of the last command it ran (zero if none) - for case, until, if without else, for over nothing",
         "loops honour break/continue levels (break N / continue N across nested loops of different kinds); function definition and call status; exit inside nested constructs"],
 "C03": ["assignment operators updating variables (`=`, `+=`, `<<=`, `++`/`--` prefix and postfix) and C precedence / associativity",
         "short-circuit `&&` `||` `?:` (unevaluated operands have no side effects or errors); division and remainder corner cases (division by zero, INT64_MIN / -1, sign of remainder)"],
 "C04": ["bracket expressions: `!` complement, character classes like `[:alpha:]`, an unclosed `[` being literal, `]` first in a set",
         "prefix removal `#` / `##` deletes exactly the shortest / longest matching prefix; `*` and `?` against multi-character and empty strings"],
 "C05": ["a leading period is matched only by a literal period; a wildcard never produces `.` or `..`; slashes only match literally (also repeated and trailing slashes)",
         "if nothing matches, or `noglob` is set, the result is the field itself with quotes removed; quoted text is never a wildcard; fields made of several expanded parts"],
 "C06": ["the parser terminates - never a hang or unbounded read-ahead - in particular around here-documents, line continuations, unclosed quotes and nested command substitutions",
         "printing of compound commands (for / case / if-elif / while / function definitions / pipelines with `!` / asynchronous `&` lists / redirections with explicit descriptor numbers) re-parses to the same tree"],
 "C07": ["the listings printed by `set +o`, `trap` and `umask` recreate the option settings, traps and mask when evaluated by a fresh shell",
         "the listings printed by `alias`, `readonly -p` and `typeset -p` (attributes, arrays, unset-but-declared variables, odd characters in values) recreate what they list"],
 "C08": ["an asynchronous list or a command substitution cannot change the parent's working directory, umask, options or positional parameters",
         "on entry the subshell sees a copy of the parent's state: functions, aliases, variables with attributes; ignored signals stay ignored while traps with command actions are reset"],
 "C09": ["the POSIX meaning of each operator: `<>` read-write opening, `>>` append, truncation by `>`, `noclobber` refusal to overwrite an existing regular file, `>|` override",
         "descriptor duplication and closing (`<&`, `>&`, `<&-`, `>&-`), here-documents, and redirections on `exec` persisting while all others are undone"],
 "C10": ["shell errors of a non-interactive shell: errors of special built-ins, assignment errors (read-only variable), expansion errors; the exit status in each aborting case",
         "errexit: a failing multi-command pipeline or subshell; exemption of a negated pipeline and of functions and groups called from exempt contexts; the EXIT trap runs exactly once"],
 "C11": ["the disposition installed for each signal is the user's trap action combined with the shell's own needs (internal handlers for SIGCHLD, or for SIGINT/SIGTERM/SIGQUIT/SIGTSTP in interactive shells) - never dropping a handler still needed",
         "a trapped signal's action runs exactly once with `$?` preserved; a signal interrupting the `wait` built-in; KILL and STOP can never be trapped"],
 "C12": ["a job's number never changes while the job exists; `%n` and `$!` designate the documented jobs",
         "jobs being resumed, reported and removed: the current/previous job selection after a resume or after removing the current job"],
 "C13": ["`wait`, `$?` and `$!` report each child's true exit status and identity: the rightmost failure under `pipefail`, 127 for an unknown pid, the last command for a pipeline",
         "children of command substitutions and subshells are reaped exactly once, leaving no zombie; no deadlock under any interleaving"],
 "C14": ["command substitution removes exactly the trailing newlines and nothing else",
         "here-document bodies reach the command's standard input byte for byte, for every size"],
 "C15": ["delivers each spawned task's result to its receiver exactly once; a task woken while it is being polled, by itself, is polled again",
         "when the run loop stalls every unfinished task is genuinely waiting; never polls a task re-entrantly"],
 "C16": ["a read-only variable is never modified or unset by any means (for loops, read, getopts, `${x=}`, arithmetic assignment, typeset, unset, temporary assignments)",
         "a function's positional parameters vanish at return; assignments prefixed to a special built-in persist while those prefixed to other commands do not"],
 "C17": ["reserved words, operators and redirections that emerge from replacement text are recognised as such",
         "quoted or partly quoted words and words not in command position are not replaced; mutually recursive aliases terminate"],
 "C18": ["earlier lines take effect (output, alias definitions, option changes) even if a later line has a syntax error",
         "how the input happens to be chunked by the underlying reads never changes the commands executed (multi-line commands, here-documents, line continuations across chunk boundaries)"],
 "C19": ["same resulting files: creation modes and umask, append and truncation, directories, on the simulated and the real system",
         "signals sent to children and `wait`; exit statuses of children killed by signals; pipes closing (EOF, EPIPE)"],
 "C20": ["grouped short options mean the same as separate ones; an option-argument attached to its option or given as the next argument is the same",
         "malformed invocations (unknown option, missing option-argument) are rejected with a diagnostic, a non-zero status and no effect"],
}

# round E: other clauses of the statements than round D
FOCUS_E = {
 "C01": ["`$@` and `$*`, quoted or not, follow their special rules: zero positional parameters, IFS empty or unset, `\"$@\"` adjacent to other text in the same word, `$*` joined by the first IFS character",
         "`${#x}` counts characters; with `nounset` an unset parameter is an error exactly where POSIX says so (not for `$@`, `$*`, nor for the forms that supply a default), and only unquoted expansion results are split while literal text of the word never is"],
 "C02": ["each command name is resolved in the POSIX search order: special built-in, function, other built-in, then `PATH`",
         "`case` runs the first matching item and yields zero if none matches; `if`/`elif` chains; `return` leaves only the innermost function (nested function calls, loops around the call keep running)"],
 "C03": ["negative or oversize shift counts, overflow in `*`, unary minus and the compound assignments (`*=`, `-=`, `<<=`) report an error instead of a wrapped value",
         "a variable whose value is an integer constant denotes that constant (surrounding blanks, signs, unset or empty meaning 0, variables naming other expressions); no expression text, however malformed, makes the shell panic"],
 "C04": ["ranges, collating symbols and equivalence classes standing for their literal characters; quoted or backslash-escaped characters match only themselves, also inside a bracket expression",
         "suffix removal `%` / `%%` deletes exactly the shortest / longest matching suffix; `case` runs the first item with a matching pattern when patterns come from expansions and quoting"],
 "C05": ["results are in sorted order and never contain a nonexistent path (dangling links, a trailing slash after a file name, unsearchable directories)",
         "tilde results and quoted characters are literal; never omits a matching path (names with unusual characters, several wildcards in one component, directories reached through several components)"],
 "C06": ["for every input text the parser ends with a tree or a syntax error, never a panic (multi-byte characters at token boundaries, aliases, here-document delimiters, unterminated constructs, operators at end of input)",
         "the printed form of words re-parses to the same tree: parameter expansions with modifiers, nested quotes, backquotes, arithmetic expansions, dollar-single-quotes, tildes, and redirection operands"],
 "C07": ["for every string the quoting function yields a word read back as exactly that one field (control characters, newlines, non-ASCII, a leading `~`, `#`, `=`, reserved words, the empty string)",
         "the listings printed by `export -p`, `set` (variables) and `typeset -fp` recreate what they list, whatever characters names and values contain"],
 "C08": ["no element of a multi-command pipeline - including the last one - can change the parent's variables, functions, aliases or open files",
         "ignored signals stay ignored in the subshell while traps with command actions are reset; a command substitution used in an assignment or redirection operand cannot change the parent's traps, options or positional parameters"],
 "C09": ["redirections are applied left to right and are in effect exactly while that command runs - for functions, compound commands and built-ins that fail alike",
         "descriptors the shell opens for its own use stay at 10 or above with close-on-exec set; no command leaves an extra descriptor open when descriptor allocation fails part-way (pipelines, here-documents, command substitutions)"],
 "C10": ["without `errexit`, redirection errors of ordinary commands, failing commands and command-not-found only set `$?` and execution continues",
         "the exempt contexts: conditions of while/until and elif, every pipeline of an and-or list but the last; syntax errors abort with the documented status and the commands after the abort point never run"],
 "C11": ["in a non-interactive shell a signal that was ignored on entry can be neither trapped nor reset, and `trap` output / subshell entry never change that",
         "each delivery of a trapped signal runs its action exactly once at the next command boundary regardless of when it arrives (inside a pipeline, a command substitution, a function call, a loop, another trap action)"],
 "C12": ["each process ID designates at most one job, and a non-empty table always has a current job, also after jobs are removed or reported",
         "`%%`, `%+`, `%-`, `%n`, `%string` and `$!` as used by fg, bg, jobs, wait and kill designate the jobs the documentation says they do"],
 "C13": ["every child is reaped exactly once (a status asked for twice, `wait` with several operands, jobs that ended before `wait` was called)",
         "the exit status of a pipeline is that of its last command (rightmost failure under `pipefail`, inverted by `!`); no result depends on which process happens to run first"],
 "C14": ["payloads far beyond the pipe capacity through pipelines of built-ins and `read` loops arrive complete, once and in order under every interleaving",
         "command substitution removes exactly the trailing newlines and nothing else when the output is nested in another substitution, ends in many newlines, or contains carriage returns and other control bytes"],
 "C15": ["a task woken by another task while it is being polled is polled again; a task is queued at most once however often it is woken",
         "each spawned task's result is delivered to its receiver exactly once, also when tasks are spawned from inside a running task or the receiver is polled late"],
 "C16": ["locals vanish at return while globals assigned inside persist; looking up a variable returns the value from the innermost visible scope (nested function calls, `typeset` with and without values, unset of a local)",
         "the environment handed to executed programs is exactly the exported variables with their current values (after temporary assignments, re-assignment, unset, read-only export)"],
 "C17": ["only an unquoted literal word in command position, or following an alias value that ends with a blank, or naming a global alias, is replaced",
         "a name is not substituted again within its own replacement, including mutual recursion reached through blank-ending values; substitution terminates"],
 "C18": ["whatever follows the current command on standard input remains available to commands that read that same input (`read`, subshells and `exec` redirections sharing fd 0)",
         "each complete command runs before the next line is read or parsed: alias definitions and option changes of one line govern how the next line is parsed"],
 "C19": ["working directory changes, `cd` and `pwd` through links and `..`, `exec` redirections and descriptor inheritance, appending to a file from several processes",
         "`wait` for unknown or already collected children, `kill -0`, signals that are blocked or ignored when they arrive, a writer to a pipe whose reader is gone while SIGPIPE is ignored"],
 "C20": ["`--` ends option parsing; a long option may be abbreviated to any unambiguous prefix and take its argument after `=` or as the next argument",
         "equivalent spellings have an identical effect on the shell for state-changing built-ins (`set`, `typeset`, `export`, `readonly`, `trap`, `read`, `getopts`, `cd`, `unset`, `umask`)"],
}
ROUND_FOCUS = {"E": FOCUS_E}

# round F
FOCUS_F = {
 "C01": ["quotes and backslashes protect what they enclose: backslash inside double quotes before characters that are and are not special there, single quotes inside double quotes, backslash-newline, quotes adjacent to unquoted expansions in one word",
         "the `=` and `?` forms (value assigned and then used, error message and abort) and `+`; expansions nested in the word of a modifier; the `read` built-in without -r joining backslash-continued lines"],
 "C02": ["`until` loops, loops whose condition is a list of several commands, `for` without `in` (iterates over the positional parameters), `if` without else whose condition fails (status zero)",
         "functions: status of a function definition, positional parameters and `$#` during and after a call, `return` without operand returns `$?`, `exit` inside a function, subshell or pipeline component"],
 "C03": ["assignment operators and prefix / postfix `++` `--`: the value of the expression versus the value stored, chained assignments `a=b=3`, compound assignment to an unset or non-numeric variable",
         "C precedence and associativity: right-associative `?:` and assignments, unary operators (`-` `+` `~` `!`) binding tighter than binary ones, `*` `/` `%` versus `+` `-` versus shifts versus comparisons versus bitwise versus logical"],
 "C04": ["`*` is any string and `?` any one character - against multi-byte characters, newlines and the empty string; whole-string anchoring in `case`, prefix / suffix anchoring in `#` / `%`",
         "bracket expressions: complement with `]` first (`[!]a]`), character classes such as `[:upper:]` `[:space:]` `[:punct:]` `[:xdigit:]`, an unclosed `[` or `[[:alpha:]` being literal, `[a-]` and `[-a]`"],
 "C05": ["slashes only match literally: `//`, a trailing `/`, `./` and `../` prefixes, absolute patterns; a component without wildcards is taken literally but the path must exist",
         "if `noglob` is set, or nothing matches, the result is the field itself with quotes removed - for fields with backslashes, quoted wildcards and unmatched bracket expressions"],
 "C06": ["never an unbounded read-ahead: the parser reads no line it does not need (here-document bodies are read after the command line that announces them, a complete command is returned without looking at the next line)",
         "the printed form of lists and pipelines re-parses to the same tree: `&` and `;` separators, `!`, `&&` / `||` chains, `case` items with several patterns, `for` without `in`, here-document operators with quoted delimiters"],
 "C07": ["`trap` output recreates the traps (actions containing quotes and newlines, EXIT, ignored signals) and `set +o` recreates every option setting",
         "`alias` output recreates aliases whose names or values contain quotes, `=`, blanks or newlines; `readonly -p` and `export -p` for variables that have no value"],
 "C08": ["a subshell `( )` or asynchronous list cannot change the parent's functions, aliases or shell options, and `exit` / `return` / a failing special built-in inside it ends only the subshell",
         "redirections performed with `exec` inside a subshell environment (pipeline component, command substitution, asynchronous list) leave the parent's open files untouched"],
 "C09": ["`>|` and `noclobber` for targets that are not regular files (directories, /dev/null, links), `<>` and `>>` creating a missing file with the right mode under the current umask",
         "here-documents: `<<-` strips leading tabs only, a quoted delimiter suppresses expansion, several here-documents on one command are read in order and each reaches its own descriptor"],
 "C10": ["errors of special built-ins (`.` with a missing file, `set` with a bad option, `shift` too far, `export` / `readonly` of an invalid name, `unset` of a read-only variable) abort a non-interactive shell, and do not when run through `command`",
         "command-not-found (127) and not-executable (126) only set `$?`; errexit inside functions and brace groups that are called from `!`, `&&` / `||` or condition contexts is exempt"],
 "C11": ["`trap - SIG` restores the default and `trap '' SIG` ignores: the disposition actually installed after each, also for signals the shell handles internally (CHLD; INT / TERM / QUIT / TSTP in an interactive shell)",
         "KILL and STOP can never be trapped or ignored; the EXIT trap runs with `$?` of the last command and once only; `wait` interrupted by a trapped signal returns a status above 128"],
 "C12": ["jobs being reported and removed: a finished job that has been reported is removed, a new job takes the lowest free job number, numbers of living jobs never change",
         "after the current job finishes or is removed, the previous job becomes current and another job (a suspended one first) becomes previous"],
 "C13": ["`$!` is the process ID of the last command of an asynchronous pipeline or list; `wait` with several operands returns the status of the last operand",
         "a child killed by a signal is reported with the documented status (384 + signal number, `kill -l` of it names the signal); no zombie is left when a command fails to start or a redirection of a subshell fails"],
 "C14": ["here-document bodies of every size (also beyond the pipe capacity) with expansions inside the body reach the command byte for byte",
         "output of a command substitution whose size is exactly at or just around the read-buffer and pipe-buffer boundaries, and invalid UTF-8 bytes in the output"],
 "C15": ["never polls a task after it completed and never polls a task re-entrantly (a task that drives the executor, or wakes itself, from inside its own poll)",
         "the value returned by `run_until_stalled` / `step`; wake-ups issued from a destructor while a task is being dropped; a task spawned from inside another task's poll is polled"],
 "C16": ["a function's positional parameters vanish at return, also after `set --` / `shift` inside the function and for nested calls",
         "a read-only variable is not modified by `for`, `read`, `getopts`, arithmetic assignment, `${x:=v}`, `typeset`, `unset` or a temporary assignment - each fails and leaves the value intact"],
 "C17": ["quoted or partly quoted words and words not in command position (after `case WORD in`, `for NAME in`, as arguments) are never replaced",
         "reserved words, control operators and redirections that emerge from replacement text are recognised as such (`alias w=while`, a value ending in `|` or `&&`, a value containing `>file`), also across a line continuation"],
 "C18": ["a syntax error on a later line does not undo or prevent the effects of earlier lines, and the exit status is the documented one; an unterminated construct at end of input",
         "after `exec <file` the shell goes on reading commands from the new standard input exactly where the previous command left it; a subshell or pipeline component reading standard input takes only what it reads"],
 "C19": ["directories: `cd` into and out of created directories, `cd ..` and `cd -`, `$PWD` and `$OLDPWD`, globbing in byte order, names with unusual bytes",
         "stopped children: `kill -s STOP` / `CONT` of a background child and `wait`; a signal sent while it is blocked by the shell for a trap; descriptors inherited by subshells and closed on their exit"],
 "C20": ["`read`, `getopts`, `typeset`, `unset`, `command` and `type`: grouped options, options after `--`, option-arguments attached or separate",
         "`trap`, `export`, `readonly`, `alias`, `unalias`, `wait`, `fg`/`bg`/`jobs`: unknown options and surplus or missing operands are rejected with a diagnostic, a non-zero status and no effect"],
}
ROUND_FOCUS["F"] = FOCUS_F

# round G
FOCUS_G = {
 "C01": ["`${#x}` and the `#` `##` `%` `%%` forms on values containing multi-byte characters, and `$*` / `$@` where no field splitting happens (`x=$*`, `x=\"$@\"`, `${y:-$@}`, here-document bodies, `case $* in`)",
         "the `read` built-in: IFS white space around the remainder given to the last variable, a trailing non-white-space separator, fewer fields than variables, more variables than fields, `-r` versus backslash handling"],
 "C02": ["status of negated multi-command pipelines and `!` before compound commands; a function named like a regular built-in wins while one named like a special built-in does not; a function defined inside a loop or `if` and called later",
         "a loop's status is that of the last body command run (zero if the body never ran), not of the condition; `break N` / `continue N` with N greater than the nesting depth act on the outermost loop; loops inside functions called from loops"],
 "C03": ["integer constants: octal `010`, hexadecimal `0x1F` / `0X1f`, invalid digits (`08`, `0x`, `1a`), the values 9223372036854775807 and 9223372036854775808, unary minus applied to the largest literal",
         "bitwise operators `&` `|` `^` `~` `<<` `>>` on negative operands (arithmetic right shift), comparison and `!` results being exactly 0 or 1, nested `?:` with assignments in the branches"],
 "C04": ["`*` next to bracket expressions and backtracking (`*[a-c]*x`, several `*`, pattern longer than the string); ranges with reversed end points; a range end point written as a collating symbol",
         "patterns coming from expansions: a quoted part (`\"$p\"`) matches literally while an unquoted `$p` is a pattern, in `case` items and in `${x#$p}` / `${x%%\"$p\"}`; a backslash inside a pattern that comes from a variable"],
 "C05": ["several wildcard components (`*/*/*`, `*/.*`), a trailing slash selecting directories only (`*/`), and the order of the whole result (pathnames compared as whole strings: `a-b/c` versus `a/c`)",
         "a leading period is not matched by `?`, `*` or a bracket expression at the start of every component (not only the first); pathname expansion applied to each field after field splitting of one word"],
 "C06": ["totality around operators and redirections: `<<-`, `<&-`, `>|`, `<>`, IO numbers next to operators (`2>&1`, `10>f`, `2 >f`), `&&` / `|` at the end of a line, `;;` outside `case`, `}` / `)` without an opener",
         "printing of simple commands with assignments and redirections interleaved (`a=1 <f cmd arg >g`), assignment values with quotes and tildes, array assignments `a=(1 2)`, function definitions whose body is a compound command with redirections"],
 "C07": ["`typeset -p` for array variables, for variables that are exported and read-only at once, for local variables inside a function; `set` (variables) printing every variable once with a value that reads back",
         "`umask` and `umask -S` output reads back to the same mask for every mask; `trap` output inside a command substitution or subshell (shows the parent's traps until one is set there) and for signals given by number or with a SIG prefix"],
 "C08": ["assignments made by expansions inside a subshell environment (`$((x=1))`, `${x:=v}`, `for`, `read`, `getopts` in a pipeline element or command substitution) stay there; `cd` in any pipeline element including the last one",
         "on entry: the subshell keeps `$$`, does not run the parent's EXIT trap, sees no traps with command actions, keeps ignored signals ignored also against `trap - SIG`-free scripts; nested subshells (a command substitution inside an asynchronous list inside a pipeline)"],
 "C09": ["redirections on compound commands and on function definitions (`f() { ...; } >file`): applied at each call and undone after it, also when the body fails, calls `return`, or `break`s out of a redirected loop",
         "duplication `n>&m` / `n<&m` where m is closed, not a number, or one of the shell's own descriptors at 10 or above (an error, and nothing of the shell's is exposed); the order `2>&1 >f` versus `>f 2>&1`; `<&-` on a closed descriptor"],
 "C10": ["errexit and command substitutions: `x=$(false)` (assignment-only command) fails and aborts, a failing substitution in a `for` word list or `case` subject does not; a failing last command of a brace group / function body outside exempt contexts",
         "the EXIT trap runs exactly once: `exit` inside the EXIT trap, an aborting error inside it, `exit` inside a function called from a subshell; the status after an abort caused by `${x?}` or an assignment to a read-only variable inside a function"],
 "C11": ["the internal SIGCHLD handler under `set -m` / after `trap '' CHLD` and `trap - CHLD`; after `trap - INT` in an interactive shell the internal handler must remain; a trap set inside a subshell after the parent's were reset",
         "a trap action that itself runs `trap`, `return` or a failing command (`$?` after the action is the one from before); the signal arriving again while its own action runs (the action runs once more, afterwards)"],
 "C12": ["`wait %n` / `jobs` removing finished jobs and the lowest free number being reused; a job added while others are suspended does not become the current job",
         "`fg` / `bg` / `kill` / `wait` with `%+` `%-` `%%` or no operand default to the documented job; `%string` / `%?string` that matches several jobs is an error; `jobs -l` / `-p` name the right process IDs"],
 "C13": ["`wait` without operands waits for all children and returns zero; `wait` inside a subshell cannot wait for the parent's children (127); `$!` is not changed by foreground commands",
         "a command substitution that starts a background job, pipelines whose last command is a function or compound command, `!` combined with `pipefail`; children finishing in every order relative to the `wait` calls"],
 "C14": ["pipelines of three or more stages whose middle stage is a shell loop, function or brace group; a reader that stops early (the writer must end, no hang) and a writer that ends early (the reader sees end of file exactly once)",
         "several children of one command substitution writing concurrently (`$(a & b; wait)`) - all bytes arrive, each writer's bytes in order; here-documents with `<<-` and expansions producing more than the pipe capacity"],
 "C15": ["no woken task is starved by others that keep re-waking themselves (the run queue is first-in first-out); a task woken several times before it is polled is polled once",
         "wakers cloned and used after their task completed (no poll, no panic); `wake_by_ref` versus `wake`; tasks spawned from inside a running task are polled in the same `run_until_stalled` call"],
 "C16": ["dynamic scoping through nested function calls: a callee sees and assigns the caller's local, not the global; `unset` of a local; exporting a local and the environment of a program started while it is visible",
         "temporary assignments to a function call when the function assigns, unsets or exports the same variable; a temporary assignment before `command` + special built-in; `x=1 readonly x` versus `readonly x=1`"],
 "C17": ["words after `!`, `{`, `(`, `then`, `do`, `else`, `|`, `&&`, `;` and after assignment words or redirections preceding the command name are in command position and are replaced; words after those are not",
         "a blank-ending value followed by a word that is itself a blank-ending alias (the chain continues to the third word); global aliases in argument positions; an alias defined on a line is not yet in effect on that same line"],
 "C18": ["files read by `.` and strings given to `eval` or `-c`: an alias or option set by one line governs the following lines, and a syntax error in a later line does not prevent the earlier lines' effects",
         "multi-byte characters and very long lines split across the underlying reads; standard input that is a seekable file versus a pipe (the rest of the input remains available to `read` and to subshells at the right offset)"],
 "C19": ["permission bits: files and directories created under various umasks, later opens failing with EACCES for reading or writing, unsearchable directories, `cd` into them, executing a file without execute permission (126)",
         "pipes: a writer blocking until the reader reads, a reader of a pipe without writers seeing end of file, descriptors of a pipe inherited by several children, SIGPIPE with default and ignored dispositions, exit statuses of such children"],
 "C20": ["`set` (`-o name`, `+o name`, `-oname`, grouped `-eu` / `+eu`, long options, `set -- -x`), `cd -L -P` (the last one wins), `umask -S`, `ulimit`, `kill -s TERM` / `-sTERM` / `-TERM` / `-15` / `-l`",
         "`return`, `exit`, `break`, `continue`, `shift` with non-numeric, negative or surplus operands; an option requiring an argument as the last argument; `command -v` / `-V` / grouped `-pv`; `type`, `exec`, `.` with options"],
}
ROUND_FOCUS["G"] = FOCUS_G

# round H (ten properties)
FOCUS_H = {
 "C02": ["`case`: patterns tried in order with the first match winning, an item with several `|` alternatives, an empty item body (status zero), a `case` inside a loop whose item runs `break` / `continue`",
         "function definitions: redefining a function while it runs, a function whose body is a subshell or a loop, the status of the definition itself, `return` with a status above 255 or from a nested call"],
 "C06": ["here-documents: several on one line, a delimiter that is quoted in part, `<<-` with tabs, a here-document inside a command substitution or a function body, an unterminated one at end of input (terminates with an error, no hang)",
         "printing of words: nested `${a:-${b:+\"c d\"}}`, backquotes containing backslashes and dollars, `$'...'` with escapes, arithmetic expansions containing parentheses and quotes, tildes in assignments"],
 "C08": ["the data a subshell inherits: functions defined, aliases, options (`set -f`, `-u`, `-C`), positional parameters after `shift`, the values of `$?`, `$!`, `$0`, `$-` on entry",
         "open files: a descriptor closed or duplicated inside a pipeline element or command substitution stays as it was in the parent; the file offset IS shared (data written by the subshell is visible, the parent's next write goes after it)"],
 "C09": ["here-documents and here-strings as redirections on built-ins, functions and compound commands: undone afterwards, the temporary descriptor closed, also when the command fails or is not found",
         "`exec` with redirections only: persists; a failing redirection on `exec` in a non-interactive shell ends the shell, through `command exec` it does not and leaves the table as it was; `exec` redirections inside a function or a loop body"],
 "C10": ["errexit inside command substitutions and subshells (the option is inherited; a failure inside aborts only that subshell, and the parent then sees a failing command), `set -e` set inside a function",
         "syntax errors in `eval` / `.` / trap actions: the documented status, what is aborted (the `eval` command is a special built-in: the shell exits; through `command eval` it does not), nothing of the erroneous text runs"],
 "C11": ["`trap` with several conditions in one command and invalid ones among them; `trap -- action SIG`; numeric condition `0` meaning EXIT; the dispositions actually installed after each",
         "signals arriving while the shell waits for a foreground child or reads a here-document / command substitution output: the action runs exactly once after the command, `$?` preserved"],
 "C13": ["`$!` after an asynchronous and-or list or group, `wait $!` twice (the second 127), `wait` for a job by `%n` while job control is off, many short-lived children finishing before `wait` is called",
         "command substitutions nested three deep and inside pipelines: every child reaped exactly once, no zombie left at the end, no deadlock when inner children write more than a pipe holds"],
 "C16": ["`unset` of a variable that has a temporary (prefix) instance, a local instance and a global one; `unset -v` versus `unset -f`; `readonly -f`?? (functions) and read-only functions surviving redefinition attempts",
         "`export` / `readonly` / `typeset` with several operands where one fails part-way (read-only): which of the others took effect; arrays assigned with `a=(...)` to exported and local variables"],
 "C17": ["alias values containing quotes, `#`, `$(`, or a here-document operator; an alias whose value ends inside a quoted string or with a backslash; substitution results that form a different token together with the following text",
         "`unalias` followed by use on the next line; `alias` re-defining a name used later in the same multi-line compound command (already parsed: the old meaning stays); aliases in function bodies are substituted at definition time"],
 "C20": ["`trap -p`, `kill -l` with operands, `wait`/`jobs`/`fg`/`bg` operands that look like options (`-1`, `%-`), `cd -` and `cd --`, `pwd -L -P`, `unset -f -v`, `umask -S 022`",
         "option-arguments: `read -d`?? does not exist - use `getopts` optstring edge cases (leading `:`, option `:` itself), `ulimit -n` with and without value, `typeset -p -x`, `command -p -v`, `exec -a`?? only if documented; an option-argument that begins with `-`"],
}
ROUND_FOCUS["H"] = FOCUS_H

def main():
    rnd, pid = sys.argv[1], sys.argv[2]
    props = {json.loads(l)["id"]: json.loads(l) for l in open("/verif/properties.jsonl")}
    p = props[pid]
    wt = f"/tmp/seed{rnd}_{pid}"
    out = f"/tmp/seedout{rnd}_{pid}"
    f1, f2 = ROUND_FOCUS.get(rnd, FOCUS)[pid]
    print(f"""You are helping to evaluate a test suite. The code base is magicant/yash-rs (a Rust reimplementation of the yash POSIX shell). Your own scratch git worktree of it is at {wt} (already created, detached HEAD; work only there; never touch /repo or /verif, and do not read anything under /verif).

A semantic property the code base is supposed to satisfy:

  Title: {p['title']}
  Statement: {p['statement']}

Your task: produce TWO independent source changes (call them 1 and 2) to the code in {wt}, each of which BREAKS this property while the code still compiles and the existing test suite (`cd {wt} && CARGO_NET_OFFLINE=true cargo test --workspace --offline --lib`) still passes completely. Change 1 should aim at this part of the statement: "{f1}". Change 2 should aim at this part: "{f2}". (If after reading the code one of these parts offers no plausible place for such a change, pick another part of the statement and say so.)

Requirements for each change:
* It must be realistic: the kind of slip or well-meant simplification/optimisation/refactoring a maintainer could make and a reviewer could wave through - small (a few lines), plausible-looking, not a planted `if input == "magic"`.
* It must NOT be exposed by ordinary use at once. It should need something specific to manifest: an unusual input, a multi-step sequence of operations, a particular interleaving or schedule, a fault (e.g. descriptor limit) at a particular point, or two cooperating sites that each look fine alone. Say precisely what it needs.
* It must really violate the property as stated (not merely change an unspecified detail, a message text or performance).
* The two changes must be independent of each other (each is a separate patch against the unchanged HEAD) and should touch different code sites.
* Provide a demonstration for each: either a shell script `demo.sh` that takes no arguments, builds what it needs in {wt} (e.g. `cargo build -p yash-cli --offline`, binary `target/debug/yash3`; note yash-rs has no echo/test/printf built-ins - use /bin/echo etc. or `printf` from PATH), exits 0 when the property holds and non-zero when it is violated; or a Rust test file `demo_test.rs` whose first comment line names the path where it must be placed (e.g. `// place at yash-semantics/tests/demo_c01.rs`) and which runs with `cargo test -p <crate> --offline --test <name>`. The demonstration must FAIL with the change applied and PASS on the unchanged HEAD; run it both ways yourself and report the outputs.

Everything runs offline (no network; `CARGO_NET_OFFLINE=true`, pass `--offline` to cargo). Builds take a few minutes; use at most 4 parallel jobs (`-j 4`); other builds share this machine.

Deliverables, written to {out}/1/ and {out}/2/ (create the directories):
  patch.diff   - output of `git diff` for that change alone, relative to the unchanged HEAD (must apply with `git apply` at the worktree root)
  demo.sh or demo_test.rs - the demonstration
  meta.md      - what was changed and why it looks innocent; which part of the property it breaks; exactly what is needed for it to manifest; the commands you ran and their outputs (tests with the change; demonstration with and without)
When you are done, leave the worktree clean (`git checkout -- . && git clean -fdq -e target`). In your final answer give a three-line summary per change.""")

if __name__ == "__main__":
    main()
