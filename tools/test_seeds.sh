#!/bin/bash
# Development helper: run the quick check of <Cxx> against every seeded change in /tmp/seedout<SUFFIX>_<Cxx>/<k>/
#   tools/test_seeds.sh <SUFFIX> <Cxx> [check-id]
suf=$1; pid=$2; chk=${3:-$pid}
for d in /tmp/seedout${suf}_$pid/*/; do
    k=$(basename "$d")
    [ -f "$d/patch.diff" ] || continue
    out=$(TAIL=400 /verif/tools/mutant_run.sh "$d/patch.diff" "$chk" 2>&1)
    n=$(echo "$out" | grep -c '^VIOLATION')
    first=$(echo "$out" | grep -A1 '^VIOLATION' | sed -n 2p | cut -c1-420)
    last=$(echo "$out" | grep "^\[$chk\]" | tail -1)
    echo "== $pid-$suf$k via $chk: violations=$n"
    [ -n "$first" ] && echo "   $first"
    [ -z "$last" ] && echo "   (no summary line: $(echo "$out" | tail -2 | tr '\n' ' ' | cut -c1-300))"
done
