#!/bin/bash
# Single entry point: run.sh --setup | run.sh <Cxx> quick|thorough | run.sh <Cxx> replay <file>
# Exit codes: 0 held, 1 violation (VIOLATION line printed), 2 inconclusive (build failure, watchdog).
cd "$(dirname "$0")" || exit 2
export CARGO_NET_OFFLINE=true
export RUST_BACKTRACE=0
H=/verif/harness
ulimit -s unlimited 2>/dev/null || ulimit -s 1048576 2>/dev/null || true

build() {
    # always rebuild from /repo's current working tree (path dependencies; no-op if unchanged)
    cp -f /repo/Cargo.lock "$H/Cargo.lock.repo" 2>/dev/null
    (cd "$H" && cargo build --quiet 2>"$H/build.log")
    local rc=$?
    if [ $rc -ne 0 ]; then
        echo "BUILD FAILED (inconclusive); see $H/build.log" >&2
        tail -30 "$H/build.log" >&2
        exit 2
    fi
}

build_fuzz() {
    # libFuzzer targets (thorough tiers of C03 C04 C06 C07); they depend on the harness library and
    # through it on /repo's working tree, so this also rebuilds from the current tree
    cp -f "$H/Cargo.lock" /verif/fuzz/Cargo.lock 2>/dev/null
    (cd /verif/fuzz && cargo +nightly fuzz build -s none --fuzz-dir . >/verif/fuzz/build.log 2>&1)
    local rc=$?
    if [ $rc -ne 0 ]; then
        echo "FUZZ BUILD FAILED (inconclusive); see /verif/fuzz/build.log" >&2
        tail -30 /verif/fuzz/build.log >&2
        exit 2
    fi
}

case "$1" in
--setup)
    build
    # the libFuzzer targets are only needed by thorough tiers (which rebuild them anyway): a
    # failure here must not fail the setup
    (build_fuzz) || echo "note: fuzz targets not built during setup" >&2
    exit 0
    ;;
C[0-9][0-9])
    build
    id=$1
    shift
    if [ "$1" = thorough ]; then
        case "$id" in C03|C04|C06|C07) build_fuzz ;; esac
    fi
    WATCHDOG=${VERIF_WATCHDOG:-}
    if [ -z "$WATCHDOG" ]; then
        case "$1" in quick) WATCHDOG=1500 ;; thorough) WATCHDOG=14400 ;; *) WATCHDOG=600 ;; esac
    fi
    timeout -s KILL "$WATCHDOG" "$H/target/debug/vcheck" "$id" "$@"
    rc=$?
    if [ $rc -eq 137 ] || [ $rc -gt 2 ]; then
        echo "[$id] inconclusive: watchdog or abnormal termination (rc=$rc)" >&2
        exit 2
    fi
    exit $rc
    ;;
*)
    echo "usage: run.sh --setup | run.sh <Cxx> quick|thorough | run.sh <Cxx> replay <file>" >&2
    exit 2
    ;;
esac
