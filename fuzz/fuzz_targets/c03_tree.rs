#![no_main]
// libFuzzer shim: decoding, oracle, shrinking and reporting live in vcheck::fuzzing
libfuzzer_sys::fuzz_target!(|data: &[u8]| {
    vcheck::fuzzing::fuzz_one("c03_tree", data);
});
